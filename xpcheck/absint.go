package main

// A small abstract interpreter over go/ssa: conditional constant propagation
// with path enumeration, an abstract heap for objects allocated on the path,
// and bounded inlining of package functions (call strings up to a depth
// bound; recursion and loops are cut by a per-path visit bound). It is used
// to read *tables* out of code whatever its shape: "which token does the
// scanner produce when the current character is '<' and the next one '='",
// "which operator string does precedence level 3 hand to the node constructor
// when the token is itemNe", "which factory gets which argument query when the
// function name is substring and there are three arguments". Such questions
// have finitely many inputs (the constants of an enumeration), and the answer
// is obtained by propagating those constants, not by running the program:
// everything that is not a known constant stays unknown and both sides of a
// branch on it are followed.

import (
	"fmt"
	"go/constant"
	"go/token"
	"go/types"
	"os"
	"reflect"
	"sort"
	"strings"
	"unicode"

	"golang.org/x/tools/go/ssa"
)

type avKind int

const (
	avUnknown avKind = iota
	avConst          // C
	avNil
	avPtr   // pointer into abstract object Obj (Field >= 0: that field/element, -1: the object itself)
	avFunc  // Fn (+ Bind for closures, + Recv for bound methods)
	avTuple // Tup
	avStruct
)

type AVal struct {
	Kind  avKind
	C     constant.Value
	Obj   *AObj
	Field int
	Fn    *ssa.Function
	Bind  []AVal
	Tup   []AVal
	Dyn   types.Type             // dynamic type when wrapped into an interface
	Src   ssa.Value              // where an unknown came from
	Tag   string                 // symbolic name given by the client
	Any   interface{}            // an opaque statically known value (e.g. a *unicode.RangeTable read off its literal)
	Facts map[*ssa.Function]bool // outcomes of pure predicates already decided for this unknown on the path
	Expr  *AExpr                 // how an unknown was computed from other values (operators, external calls)
	// TypedNil: a nil pointer wrapped into an interface — nil for every use, but
	// it does not compare equal to the nil interface
	TypedNil bool
}

// AExpr: a symbolic expression over abstract values.
type AExpr struct {
	Op   token.Token // binary/unary operator, or token.ILLEGAL for a call
	Call string      // callee for calls
	Args []AVal
}

func (e *AExpr) String() string {
	if e == nil {
		return ""
	}
	var p []string
	for _, a := range e.Args {
		p = append(p, a.String())
	}
	if e.Call != "" {
		return e.Call + "(" + strings.Join(p, ", ") + ")"
	}
	if len(p) == 2 {
		return "(" + p[0] + " " + e.Op.String() + " " + p[1] + ")"
	}
	return e.Op.String() + strings.Join(p, ",")
}

func aUnknown(src ssa.Value) AVal  { return AVal{Kind: avUnknown, Src: src} }
func aConst(c constant.Value) AVal { return AVal{Kind: avConst, C: c} }
func aInt(k int64) AVal            { return aConst(constant.MakeInt64(k)) }
func aBool(b bool) AVal            { return aConst(constant.MakeBool(b)) }
func aStr(s string) AVal           { return aConst(constant.MakeString(s)) }

func (v AVal) isConst() bool { return v.Kind == avConst && v.C != nil }
func (v AVal) Int() (int64, bool) {
	if !v.isConst() || v.C.Kind() != constant.Int {
		return 0, false
	}
	return constant.Int64Val(v.C)
}
func (v AVal) Str() (string, bool) {
	if !v.isConst() || v.C.Kind() != constant.String {
		return "", false
	}
	return constant.StringVal(v.C), true
}
func (v AVal) Bool() (bool, bool) {
	if !v.isConst() || v.C.Kind() != constant.Bool {
		return false, false
	}
	return constant.BoolVal(v.C), true
}

func (v AVal) String() string {
	switch v.Kind {
	case avConst:
		return v.C.String()
	case avNil:
		return "nil"
	case avPtr:
		if v.Obj == nil {
			return "&?"
		}
		if v.Field >= 0 {
			return fmt.Sprintf("&obj%d.%d", v.Obj.ID, v.Field)
		}
		return fmt.Sprintf("&obj%d(%s)", v.Obj.ID, typeName(v.Obj.Type))
	case avFunc:
		return "func " + v.Fn.Name()
	case avTuple:
		var p []string
		for _, x := range v.Tup {
			p = append(p, x.String())
		}
		return "(" + strings.Join(p, ", ") + ")"
	case avStruct:
		if v.Obj == nil {
			return "struct ?"
		}
		return fmt.Sprintf("struct obj%d", v.Obj.ID)
	}
	if v.Tag != "" {
		return "?" + v.Tag
	}
	if v.Expr != nil {
		return v.Expr.String()
	}
	return "?"
}

// AObj: an object allocated on the path (struct, array, slice backing, cell).
type AObj struct {
	ID     int
	Type   types.Type
	Fields map[int]AVal
	Len    int // number of known elements for slices/arrays (-1 unknown)
	Site   ssa.Value
	Extern bool // stands for memory not allocated on the path (receiver, parameters)
	IsMap  bool
	Map    map[string]AVal // entries of a map whose keys are all identifiable
	Keys   map[string]AVal
	Opaque bool // a map that received an unidentifiable key: contents unknown
}

// keyID: an identity for a map key: constants by value, unknowns by their tag.
func keyID(k AVal) (string, bool) {
	switch {
	case k.isConst():
		return "c:" + k.C.ExactString(), true
	case k.Tag != "":
		return "t:" + k.Tag, true
	case k.Kind == avPtr:
		return fmt.Sprintf("p:%d.%d", k.Obj.ID, k.Field), true
	}
	return "", false
}

func (o *AObj) mapSet(k, v AVal) {
	id, ok := keyID(k)
	if !ok {
		o.Opaque = true
		return
	}
	if o.Map == nil {
		o.Map, o.Keys = map[string]AVal{}, map[string]AVal{}
	}
	o.Map[id], o.Keys[id] = v, k
}

type AEvent struct {
	Kind   string // "call", "panic", "branch", "store"
	Site   ssa.Instruction
	Callee *ssa.Function
	Name   string
	Args   []AVal
	Taken  bool
	Depth  int
}

type AState struct {
	globals map[*ssa.Global]*AObj
	heap    map[int]*AObj
	nextID  *int
	Trace   []AEvent
	visits  map[*ssa.BasicBlock]int
	depth   int
	steps   int
}

var debugCalls = os.Getenv("XPDEBUG") == "calls"

func newAState() *AState {
	n := 0
	return &AState{heap: map[int]*AObj{}, nextID: &n, visits: map[*ssa.BasicBlock]int{}, globals: map[*ssa.Global]*AObj{}}
}

func (s *AState) newObj(t types.Type, site ssa.Value) *AObj {
	*s.nextID++
	o := &AObj{ID: *s.nextID, Type: t, Fields: map[int]AVal{}, Len: -1, Site: site}
	s.heap[o.ID] = o
	return o
}

// fork copies the state; objects are copied so that the two paths evolve
// independently. Pointers inside values are re-targeted lazily through IDs.
func (s *AState) fork() *AState {
	t := &AState{heap: map[int]*AObj{}, nextID: s.nextID, depth: s.depth, steps: s.steps, visits: map[*ssa.BasicBlock]int{}, globals: make(map[*ssa.Global]*AObj, len(s.globals))}
	for g, o := range s.globals {
		t.globals[g] = o
	}
	for id, o := range s.heap {
		c := &AObj{ID: o.ID, Type: o.Type, Fields: make(map[int]AVal, len(o.Fields)), Len: o.Len, Site: o.Site, Extern: o.Extern, IsMap: o.IsMap, Opaque: o.Opaque}
		for k, v := range o.Fields {
			c.Fields[k] = v
		}
		if o.Map != nil {
			c.Map, c.Keys = make(map[string]AVal, len(o.Map)), make(map[string]AVal, len(o.Keys))
			for k, v := range o.Map {
				c.Map[k] = v
			}
			for k, v := range o.Keys {
				c.Keys[k] = v
			}
		}
		t.heap[id] = c
	}
	for b, n := range s.visits {
		t.visits[b] = n
	}
	t.Trace = append([]AEvent{}, s.Trace...)
	return t
}

// obj resolves an object reference in this state (after forks).
func (s *AState) obj(o *AObj) *AObj {
	if o == nil {
		return nil
	}
	if c, ok := s.heap[o.ID]; ok {
		return c
	}
	return o
}

type AOutcome struct {
	St       *AState
	Ret      AVal
	Panicked bool
	Cut      bool // path abandoned (visit/step bound)
	At       ssa.Instruction
}

// AHooks let a client give meaning to particular calls and observe the path.
type AHooks struct {
	// Call: return handled=true to supply the result (or outcomes) instead of interpreting the callee.
	Call func(ai *AInterp, st *AState, site ssa.CallInstruction, callee *ssa.Function, args []AVal) (handled bool, res AVal)
	// Interesting: record a call event for this callee even if it is interpreted.
	Record func(callee *ssa.Function) bool
	// Branch: called when a branch on an unknown condition is taken; may refine the state.
	Branch func(ai *AInterp, st *AState, fr *aFrame, cond ssa.Value, taken bool)
	// Global: the abstract object standing for a package-level variable (nil: unknown).
	Global func(st *AState, g *ssa.Global) *AObj
}

type AInterp struct {
	w         *World
	hooks     AHooks
	MaxDepth  int
	MaxVisits int
	MaxSteps  int
	MaxPaths  int
	paths     int
	InitMode  bool // interpreting package initialisation: unknown globals are zero-valued objects
	CallValue AVal // during hooks.Call: the value being called (for calls through a function value)
}

func (w *World) newInterp(h AHooks) *AInterp {
	return &AInterp{w: w, hooks: h, MaxDepth: 6, MaxVisits: 3, MaxSteps: 20000, MaxPaths: 4000}
}

type aFrame struct {
	fn     *ssa.Function
	env    map[ssa.Value]AVal
	free   []AVal
	visits map[*ssa.BasicBlock]int // per activation: bounds the trips round a loop of this call
}

func (fr *aFrame) fork() *aFrame {
	f2 := &aFrame{fn: fr.fn, env: cloneEnv(fr.env), free: fr.free, visits: map[*ssa.BasicBlock]int{}}
	for b, n := range fr.visits {
		f2.visits[b] = n
	}
	return f2
}

func (fr *aFrame) get(ai *AInterp, st *AState, v ssa.Value) AVal {
	switch x := v.(type) {
	case *ssa.Const:
		if x.Value == nil {
			if _, isBasic := x.Type().Underlying().(*types.Basic); isBasic {
				// zero value of a basic type
				b := x.Type().Underlying().(*types.Basic)
				switch {
				case b.Info()&types.IsString != 0:
					return aStr("")
				case b.Info()&types.IsBoolean != 0:
					return aBool(false)
				case b.Info()&types.IsNumeric != 0:
					return aInt(0)
				}
			}
			return AVal{Kind: avNil}
		}
		return aConst(x.Value)
	case *ssa.Function:
		return AVal{Kind: avFunc, Fn: x}
	case *ssa.FreeVar:
		for i, fv := range fr.fn.FreeVars {
			if fv == x && i < len(fr.free) {
				return fr.free[i]
			}
		}
		return aUnknown(v)
	case *ssa.Global:
		// a global is a pointer to its storage
		if o, ok := st.globals[x]; ok {
			return AVal{Kind: avPtr, Obj: o, Field: -1}
		}
		if ai.hooks.Global != nil {
			if o := ai.hooks.Global(st, x); o != nil {
				st.globals[x] = o
				return AVal{Kind: avPtr, Obj: o, Field: -1}
			}
		}
		if ai.InitMode {
			// package initialisation starts from zeroed variables
			o := st.newObj(x.Type().(*types.Pointer).Elem(), x)
			st.globals[x] = o
			return AVal{Kind: avPtr, Obj: o, Field: -1}
		}
		return aUnknown(v)
	}
	if a, ok := fr.env[v]; ok {
		return a
	}
	return aUnknown(v)
}

// Exec interprets fn with the given arguments from state st and returns the
// outcomes of all paths.
func (ai *AInterp) Exec(fn *ssa.Function, args []AVal, free []AVal, st *AState) []AOutcome {
	if len(fn.Blocks) == 0 || st.depth > ai.MaxDepth {
		return []AOutcome{{St: st, Ret: aUnknown(nil)}}
	}
	fr := &aFrame{fn: fn, env: map[ssa.Value]AVal{}, free: free, visits: map[*ssa.BasicBlock]int{}}
	for i, p := range fn.Params {
		if i < len(args) {
			fr.env[p] = args[i]
		} else {
			fr.env[p] = aUnknown(p)
		}
	}
	st.depth++
	outs := ai.run(fr, st, fn.Blocks[0], nil, 0)
	for i := range outs {
		outs[i].St.depth--
	}
	return outs
}

func cloneEnv(e map[ssa.Value]AVal) map[ssa.Value]AVal {
	c := make(map[ssa.Value]AVal, len(e))
	for k, v := range e {
		c[k] = v
	}
	return c
}

func (ai *AInterp) run(fr *aFrame, st *AState, b, prev *ssa.BasicBlock, idx int) []AOutcome {
blocks:
	for {
		if idx == 0 {
			fr.visits[b]++
			if fr.visits[b] > ai.MaxVisits {
				return []AOutcome{{St: st, Cut: true, Ret: aUnknown(nil)}}
			}
			// phis are evaluated together on entry
			vals := map[*ssa.Phi]AVal{}
			for _, in := range b.Instrs {
				ph, ok := in.(*ssa.Phi)
				if !ok {
					break
				}
				v := aUnknown(ph)
				for i, p := range b.Preds {
					if p == prev {
						v = fr.get(ai, st, ph.Edges[i])
					}
				}
				vals[ph] = v
			}
			for ph, v := range vals {
				fr.env[ph] = v
			}
		}
		for i := idx; i < len(b.Instrs); i++ {
			in := b.Instrs[i]
			st.steps++
			if st.steps > ai.MaxSteps {
				return []AOutcome{{St: st, Cut: true, Ret: aUnknown(nil)}}
			}
			switch x := in.(type) {
			case *ssa.Phi, *ssa.DebugRef:
			case *ssa.If:
				c := fr.get(ai, st, x.Cond)
				if bv, ok := c.Bool(); ok {
					nb := b.Succs[1]
					if bv {
						nb = b.Succs[0]
					}
					prev, b, idx = b, nb, 0
					continue blocks
				}
				ai.paths++
				if ai.paths > ai.MaxPaths {
					return []AOutcome{{St: st, Cut: true, Ret: aUnknown(nil)}}
				}
				st2 := st.fork()
				fr2 := fr.fork()
				st.Trace = append(st.Trace, AEvent{Kind: "branch", Site: x, Taken: true, Depth: st.depth})
				st2.Trace = append(st2.Trace, AEvent{Kind: "branch", Site: x, Taken: false, Depth: st2.depth})
				ai.refine(fr, st, x.Cond, true)
				ai.refine(fr2, st2, x.Cond, false)
				if ai.hooks.Branch != nil {
					ai.hooks.Branch(ai, st, fr, x.Cond, true)
					ai.hooks.Branch(ai, st2, fr2, x.Cond, false)
				}
				o1 := ai.run(fr, st, b.Succs[0], b, 0)
				o2 := ai.run(fr2, st2, b.Succs[1], b, 0)
				return append(o1, o2...)
			case *ssa.Jump:
				prev, b, idx = b, b.Succs[0], 0
				continue blocks
			case *ssa.Return:
				var ret AVal
				switch len(x.Results) {
				case 0:
					ret = AVal{Kind: avNil}
				case 1:
					ret = fr.get(ai, st, x.Results[0])
				default:
					ret = AVal{Kind: avTuple}
					for _, rv := range x.Results {
						ret.Tup = append(ret.Tup, fr.get(ai, st, rv))
					}
				}
				return []AOutcome{{St: st, Ret: ret, At: x}}
			case *ssa.Panic:
				st.Trace = append(st.Trace, AEvent{Kind: "panic", Site: x, Args: []AVal{fr.get(ai, st, x.X)}, Depth: st.depth})
				return []AOutcome{{St: st, Panicked: true, At: x}}
			case *ssa.MapUpdate:
				m := fr.get(ai, st, x.Map)
				if m.Kind == avPtr && m.Field < 0 && st.obj(m.Obj).IsMap {
					st.obj(m.Obj).mapSet(fr.get(ai, st, x.Key), fr.get(ai, st, x.Value))
				}
			case *ssa.RunDefers, *ssa.Defer, *ssa.Go, *ssa.Send:
				// not modelled
			case *ssa.IndexAddr:
				// a constant index beyond the known length of the indexed object: run-time panic
				p := fr.get(ai, st, x.X)
				if k, ok := fr.get(ai, st, x.Index).Int(); ok && (p.Kind == avPtr && p.Field < 0 || p.Kind == avNil) {
					n := 0
					if p.Kind == avPtr {
						n = st.obj(p.Obj).Len
					}
					if n >= 0 && (k < 0 || int(k) >= n) {
						st.Trace = append(st.Trace, AEvent{Kind: "panic", Site: x, Name: "index out of range", Depth: st.depth})
						return []AOutcome{{St: st, Panicked: true, At: x}}
					}
				}
				fr.env[x] = ai.eval(fr, st, x)
			case *ssa.Store:
				ai.store(st, fr.get(ai, st, x.Addr), fr.get(ai, st, x.Val))
			case ssa.CallInstruction:
				outs := ai.call(fr, st, x)
				if len(outs) == 1 && !outs[0].Panicked && !outs[0].Cut {
					st = outs[0].St
					if v, ok := in.(ssa.Value); ok {
						fr.env[v] = outs[0].Ret
					}
					continue
				}
				var all []AOutcome
				for k, o := range outs {
					if o.Panicked || o.Cut {
						all = append(all, o)
						continue
					}
					f2 := fr
					if k < len(outs)-1 {
						f2 = fr.fork()
					}
					if v, ok := in.(ssa.Value); ok {
						f2.env[v] = o.Ret
					}
					all = append(all, ai.run(f2, o.St, b, prev, i+1)...)
				}
				return all
			default:
				if v, ok := in.(ssa.Value); ok {
					fr.env[v] = ai.eval(fr, st, v)
				}
			}
		}
		return []AOutcome{{St: st, Cut: true, Ret: aUnknown(nil)}}
	}
}

// refine: a branch on `load(field of known object) ==/!= const` fixes that
// field on the side where equality holds.
func (ai *AInterp) refine(fr *aFrame, st *AState, cond ssa.Value, taken bool) {
	for {
		u, ok := cond.(*ssa.UnOp)
		if !ok || u.Op != token.NOT {
			break
		}
		cond = u.X
		taken = !taken
	}
	bo, ok := cond.(*ssa.BinOp)
	if !ok || bo.Op != token.EQL && bo.Op != token.NEQ {
		return
	}
	if (bo.Op == token.EQL) != taken {
		return
	}
	for _, pr := range [][2]ssa.Value{{bo.X, bo.Y}, {bo.Y, bo.X}} {
		c := fr.get(ai, st, pr[1])
		if !c.isConst() {
			continue
		}
		// the value itself becomes known on this path
		fr.env[pr[0]] = c
		if ld, ok := pr[0].(*ssa.UnOp); ok && ld.Op == token.MUL {
			p := fr.get(ai, st, ld.X)
			if p.Kind == avPtr {
				ai.store(st, p, c)
			}
		}
	}
}

func (ai *AInterp) store(st *AState, addr, val AVal) {
	if addr.Kind != avPtr {
		return
	}
	o := st.obj(addr.Obj)
	f := addr.Field
	// a whole struct value assigned to a struct variable: the fields are copied
	if f < 0 && val.Kind == avStruct && val.Obj != nil {
		if _, isStruct := o.Type.Underlying().(*types.Struct); isStruct && o.Type != nil {
			src := st.obj(val.Obj)
			if src != o {
				o.Fields = make(map[int]AVal, len(src.Fields))
				for k, v := range src.Fields {
					o.Fields[k] = v
				}
				o.Extern = src.Extern
			}
			return
		}
	}
	if f < 0 {
		f = 0
	}
	o.Fields[f] = val
}

func (ai *AInterp) load(st *AState, addr AVal, src ssa.Value) AVal {
	if addr.Kind != avPtr {
		return aUnknown(src)
	}
	o := st.obj(addr.Obj)
	f := addr.Field
	if f < 0 {
		f = 0
	}
	if v, ok := o.Fields[f]; ok {
		return v
	}
	if o.Extern {
		return aUnknown(src)
	}
	// zero value of a fresh object
	return zeroOf(fieldType(o.Type, f))
}

func fieldType(t types.Type, f int) types.Type {
	if t == nil {
		return nil
	}
	switch u := t.Underlying().(type) {
	case *types.Struct:
		if f < u.NumFields() {
			return u.Field(f).Type()
		}
	case *types.Array:
		return u.Elem()
	case *types.Slice:
		return u.Elem()
	}
	return t
}

func zeroOf(t types.Type) AVal {
	if t == nil {
		return aUnknown(nil)
	}
	switch u := t.Underlying().(type) {
	case *types.Basic:
		switch {
		case u.Info()&types.IsString != 0:
			return aStr("")
		case u.Info()&types.IsBoolean != 0:
			return aBool(false)
		case u.Info()&types.IsNumeric != 0:
			return aInt(0)
		}
	case *types.Pointer, *types.Interface, *types.Slice, *types.Map, *types.Signature, *types.Chan:
		return AVal{Kind: avNil}
	}
	return aUnknown(nil)
}

func (ai *AInterp) eval(fr *aFrame, st *AState, v ssa.Value) AVal {
	switch x := v.(type) {
	case *ssa.Alloc:
		o := st.newObj(x.Type().(*types.Pointer).Elem(), x)
		return AVal{Kind: avPtr, Obj: o, Field: -1}
	case *ssa.FieldAddr:
		p := fr.get(ai, st, x.X)
		if p.Kind == avPtr && p.Field < 0 {
			return AVal{Kind: avPtr, Obj: p.Obj, Field: x.Field}
		}
		if p.Kind == avPtr {
			// field of a struct stored in a field: model as a sub-object
			sub := ai.load(st, p, x)
			if sub.Kind == avStruct {
				return AVal{Kind: avPtr, Obj: sub.Obj, Field: x.Field}
			}
			o := st.newObj(fieldType(st.obj(p.Obj).Type, p.Field), x)
			o.Extern = st.obj(p.Obj).Extern
			ai.store(st, p, AVal{Kind: avStruct, Obj: o})
			return AVal{Kind: avPtr, Obj: o, Field: x.Field}
		}
		return aUnknown(x)
	case *ssa.IndexAddr:
		p := fr.get(ai, st, x.X)
		k, ok := fr.get(ai, st, x.Index).Int()
		if p.Kind == avPtr && ok {
			return AVal{Kind: avPtr, Obj: p.Obj, Field: int(k)}
		}
		return aUnknown(x)
	case *ssa.Field:
		s := fr.get(ai, st, x.X)
		if s.Kind == avStruct {
			return ai.load(st, AVal{Kind: avPtr, Obj: s.Obj, Field: x.Field}, x)
		}
		return aUnknown(x)
	case *ssa.UnOp:
		a := fr.get(ai, st, x.X)
		switch x.Op {
		case token.MUL:
			r := ai.load(st, a, x)
			if a.Kind == avPtr && a.Field < 0 {
				if _, isStruct := st.obj(a.Obj).Type.Underlying().(*types.Struct); isStruct {
					return AVal{Kind: avStruct, Obj: a.Obj}
				}
			}
			return r
		case token.NOT:
			if b, ok := a.Bool(); ok {
				return aBool(!b)
			}
		case token.SUB:
			if a.isConst() {
				return aConst(constant.UnaryOp(token.SUB, a.C, 0))
			}
		case token.XOR:
			if a.isConst() && a.C.Kind() == constant.Int {
				return aConst(constant.UnaryOp(token.XOR, a.C, 0))
			}
		}
		return aUnknown(x)
	case *ssa.BinOp:
		a, b := fr.get(ai, st, x.X), fr.get(ai, st, x.Y)
		switch x.Op {
		case token.EQL, token.NEQ:
			if a.Kind == avNil && b.Kind == avNil && a.TypedNil != b.TypedNil {
				return aBool(x.Op == token.NEQ) // interface holding a nil pointer vs the nil interface
			}
			if a.Kind == avNil && b.Kind == avNil {
				return aBool(x.Op == token.EQL)
			}
			if (a.Kind == avNil) != (b.Kind == avNil) {
				other := a
				if a.Kind == avNil {
					other = b
				}
				if other.Kind == avPtr || other.Kind == avFunc || other.Kind == avStruct {
					return aBool(x.Op == token.NEQ)
				}
				if _, isTab := other.Any.(map[string]string); isTab {
					return aBool(x.Op == token.NEQ)
				}
			}
			if a.Kind == avPtr && b.Kind == avPtr {
				same := a.Obj.ID == b.Obj.ID && a.Field == b.Field
				return aBool(same == (x.Op == token.EQL))
			}
		}
		if a.isConst() && b.isConst() {
			switch x.Op {
			case token.EQL, token.NEQ, token.LSS, token.LEQ, token.GTR, token.GEQ:
				if a.C.Kind() == b.C.Kind() || (a.C.Kind() != constant.String && b.C.Kind() != constant.String && a.C.Kind() != constant.Bool && b.C.Kind() != constant.Bool) {
					return aBool(constant.Compare(a.C, x.Op, b.C))
				}
			case token.ADD, token.SUB, token.MUL, token.AND, token.OR, token.XOR, token.AND_NOT:
				if a.C.Kind() == constant.String && x.Op != token.ADD {
					return aUnknown(x)
				}
				if a.C.Kind() == constant.Bool {
					return aUnknown(x)
				}
				return aConst(constant.BinaryOp(a.C, x.Op, b.C))
			case token.QUO, token.REM:
				if a.C.Kind() == constant.Int && b.C.Kind() == constant.Int && constant.Sign(b.C) != 0 {
					op := x.Op
					if op == token.QUO {
						op = token.QUO_ASSIGN
					}
					return aConst(constant.BinaryOp(a.C, op, b.C))
				}
			case token.SHL, token.SHR:
				if s, ok := constant.Uint64Val(b.C); ok && a.C.Kind() == constant.Int {
					return aConst(constant.Shift(a.C, x.Op, uint(s)))
				}
			}
		}
		u := aUnknown(x)
		u.Expr = &AExpr{Op: x.Op, Args: []AVal{a, b}}
		return u
	case *ssa.Convert:
		a := fr.get(ai, st, x.X)
		if a.isConst() {
			if tb, ok := x.Type().Underlying().(*types.Basic); ok {
				// rune/int -> string
				if tb.Info()&types.IsString != 0 && a.C.Kind() == constant.Int {
					if k, ok := constant.Int64Val(a.C); ok {
						return aStr(string(rune(k)))
					}
				}
				if tb.Info()&types.IsNumeric != 0 && (a.C.Kind() == constant.Int || a.C.Kind() == constant.Float) {
					if tb.Info()&types.IsInteger != 0 {
						return aConst(constant.ToInt(a.C))
					}
					return a
				}
				if tb.Info()&types.IsString != 0 && a.C.Kind() == constant.String {
					return a
				}
			}
		}
		return a
	case *ssa.ChangeType:
		return fr.get(ai, st, x.X)
	case *ssa.ChangeInterface:
		return fr.get(ai, st, x.X)
	case *ssa.MakeInterface:
		a := fr.get(ai, st, x.X)
		a.Dyn = x.X.Type()
		if a.Kind == avNil {
			if _, isI := x.X.Type().Underlying().(*types.Interface); !isI {
				a.TypedNil = true
			}
		}
		return a
	case *ssa.TypeAssert:
		a := fr.get(ai, st, x.X)
		a.TypedNil = false
		if a.Dyn != nil {
			var ok bool
			if it, isI := x.AssertedType.Underlying().(*types.Interface); isI {
				ok = types.Implements(a.Dyn, it)
			} else {
				ok = types.Identical(a.Dyn, x.AssertedType)
			}
			if x.CommaOk {
				if ok {
					return AVal{Kind: avTuple, Tup: []AVal{a, aBool(true)}}
				}
				return AVal{Kind: avTuple, Tup: []AVal{zeroOf(x.AssertedType), aBool(false)}}
			}
			if ok {
				return a
			}
		}
		if a.Kind == avNil && x.CommaOk {
			return AVal{Kind: avTuple, Tup: []AVal{zeroOf(x.AssertedType), aBool(false)}}
		}
		if x.CommaOk {
			u := aUnknown(x)
			u.Tag = a.Tag
			return AVal{Kind: avTuple, Tup: []AVal{u, aUnknown(x)}}
		}
		u := aUnknown(x)
		u.Tag = a.Tag
		return u
	case *ssa.Extract:
		t := fr.get(ai, st, x.Tuple)
		if t.Kind == avTuple && x.Index < len(t.Tup) {
			return t.Tup[x.Index]
		}
		return aUnknown(x)
	case *ssa.MakeClosure:
		f := x.Fn.(*ssa.Function)
		c := AVal{Kind: avFunc, Fn: f}
		for _, b := range x.Bindings {
			c.Bind = append(c.Bind, fr.get(ai, st, b))
		}
		return c
	case *ssa.MakeSlice:
		o := st.newObj(x.Type(), x)
		if n, ok := fr.get(ai, st, x.Len).Int(); ok {
			o.Len = int(n)
		}
		return AVal{Kind: avPtr, Obj: o, Field: -1}
	case *ssa.MakeMap:
		o := st.newObj(x.Type(), x)
		o.IsMap = true
		return AVal{Kind: avPtr, Obj: o, Field: -1}
	case *ssa.Slice:
		a := fr.get(ai, st, x.X)
		if a.Kind == avPtr && x.Low == nil && x.High == nil {
			// slicing a whole array: the slice shares the array object
			o := st.obj(a.Obj)
			if arr, ok := o.Type.Underlying().(*types.Array); ok && o.Len < 0 {
				o.Len = int(arr.Len())
			}
			return AVal{Kind: avPtr, Obj: a.Obj, Field: -1}
		}
		if s, ok := a.Str(); ok {
			lo, hi := 0, len(s)
			okb := true
			if x.Low != nil {
				if k, ok := fr.get(ai, st, x.Low).Int(); ok {
					lo = int(k)
				} else {
					okb = false
				}
			}
			if x.High != nil {
				if k, ok := fr.get(ai, st, x.High).Int(); ok {
					hi = int(k)
				} else {
					okb = false
				}
			}
			if okb && lo >= 0 && hi <= len(s) && lo <= hi {
				return aStr(s[lo:hi])
			}
		}
		// a slice of a value the client named: symbolic, with the bounds that are given
		if _, isStr := a.Str(); isStr || a.Kind == avUnknown && (a.Tag != "" || a.Expr != nil) {
			args := []AVal{a, {Kind: avNil}, {Kind: avNil}}
			if x.Low != nil {
				args[1] = fr.get(ai, st, x.Low)
			}
			if x.High != nil {
				args[2] = fr.get(ai, st, x.High)
			}
			return AVal{Kind: avUnknown, Expr: &AExpr{Call: "slice", Args: args}}
		}
		return aUnknown(x)
	case *ssa.Lookup:
		// a map built on the path (or given by the client) whose keys are all identifiable
		if mv := fr.get(ai, st, x.X); mv.Kind == avPtr && mv.Field < 0 && st.obj(mv.Obj).IsMap && !st.obj(mv.Obj).Opaque {
			if id, ok := keyID(fr.get(ai, st, x.Index)); ok {
				val, found := st.obj(mv.Obj).Map[id]
				if debugCalls {
					fmt.Printf("  lookup %s -> found=%v %s", id, found, val.String())
					if val.Obj != nil {
						fmt.Printf(" fields=%v heap=%v", st.obj(val.Obj).Fields, st.heap[val.Obj.ID] != nil)
					}
					fmt.Println()
				}
				if !found {
					val = zeroOf(x.X.Type().Underlying().(*types.Map).Elem())
				}
				if x.CommaOk {
					return AVal{Kind: avTuple, Tup: []AVal{val, aBool(found)}}
				}
				return val
			}
		}
		// a table known to the client (map[string]string) indexed by a constant
		m := fr.get(ai, st, x.X)
		if tab, ok := m.Any.(map[string]string); ok {
			if k, ok := fr.get(ai, st, x.Index).Str(); ok {
				v, found := tab[k]
				val := aStr(v)
				val.Tag = "ns-value"
				if x.CommaOk {
					return AVal{Kind: avTuple, Tup: []AVal{val, aBool(found)}}
				}
				return val
			}
		}
		return aUnknown(x)
	case *ssa.Index, *ssa.Range, *ssa.Next, *ssa.Select:
		return aUnknown(x)
	}
	return aUnknown(v)
}

func (ai *AInterp) call(fr *aFrame, st *AState, site ssa.CallInstruction) []AOutcome {
	com := site.Common()
	var args []AVal
	var callee *ssa.Function
	var free []AVal
	if com.IsInvoke() {
		recv := fr.get(ai, st, com.Value)
		args = append(args, recv)
		if recv.Dyn != nil {
			ms := ai.w.Prog.MethodSets.MethodSet(recv.Dyn)
			if sel := ms.Lookup(com.Method.Pkg(), com.Method.Name()); sel != nil {
				callee = ai.w.Prog.MethodValue(sel)
			}
		}
	} else {
		fv := fr.get(ai, st, com.Value)
		switch {
		case com.StaticCallee() != nil:
			callee = com.StaticCallee()
			if mc, ok := com.Value.(*ssa.MakeClosure); ok {
				for _, b := range mc.Bindings {
					free = append(free, fr.get(ai, st, b))
				}
			}
		case fv.Kind == avFunc:
			callee = fv.Fn
			free = fv.Bind
		}
	}
	for _, a := range com.Args {
		args = append(args, fr.get(ai, st, a))
	}
	// a bound method value (p.parseStep handed around as func(node) node): the
	// call of the method itself with the bound receiver
	if callee != nil && strings.HasPrefix(callee.Synthetic, "bound method wrapper") && len(free) == 1 {
		if obj, ok := callee.Object().(*types.Func); ok {
			if m := ai.w.Prog.FuncValue(obj); m != nil {
				callee = m
				args = append([]AVal{free[0]}, args...)
				free = nil
			}
		}
	}
	if debugCalls {
		cn := "<nil>"
		if callee != nil {
			cn = callee.String()
		}
		fmt.Printf("  call %s -> %s (value %s) depth=%d\n", site.String(), cn, fr.get(ai, st, com.Value).String(), st.depth)
	}
	// builtins
	if b, ok := com.Value.(*ssa.Builtin); ok {
		return []AOutcome{{St: st, Ret: ai.builtin(st, b.Name(), args, site)}}
	}
	ai.CallValue = AVal{}
	if !com.IsInvoke() {
		ai.CallValue = fr.get(ai, st, com.Value)
	}
	if callee != nil && ai.hooks.Record != nil && ai.hooks.Record(callee) {
		st.Trace = append(st.Trace, AEvent{Kind: "call", Site: site, Callee: callee, Args: args, Depth: st.depth})
	}
	if ai.hooks.Call != nil {
		if handled, res := ai.hooks.Call(ai, st, site, callee, args); handled {
			return []AOutcome{{St: st, Ret: res}}
		}
	}
	own := callee != nil && ai.w.inPkg(callee)
	if callee != nil && !own && callee.Synthetic != "" && callee.Object() != nil && callee.Object().Pkg() == ai.w.Types {
		own = true // wrapper of a promoted method of this package
	}
	if callee != nil && callee.String() == "unicode.In" && len(args) == 2 {
		// In(r, tables...): membership in one of range tables the client knows
		if k, ok := args[0].Int(); ok {
			if tabs, ok := st.elems(args[1]); ok {
				known, in := true, false
				for _, tv := range tabs {
					t, ok := tv.Any.(*unicode.RangeTable)
					if !ok {
						known = false
						break
					}
					if unicode.Is(t, rune(k)) {
						in = true
					}
				}
				if known {
					return []AOutcome{{St: st, Ret: aBool(in)}}
				}
			}
		}
	}
	if callee == nil || !own || len(callee.Blocks) == 0 {
		var v ssa.Value
		if sv, ok := site.(ssa.Value); ok {
			v = sv
		}
		return []AOutcome{{St: st, Ret: ai.external(callee, args, v)}}
	}
	// bound method closures (synthetic) take the receiver from their free variable
	return ai.Exec(callee, args, free, st)
}

// external: a few pure standard-library functions on constants.
func (ai *AInterp) external(callee *ssa.Function, args []AVal, v ssa.Value) AVal {
	if callee != nil && callee.Pkg != nil {
		switch callee.String() {
		case "strings.ToLower":
			if s, ok := args[0].Str(); ok {
				return aStr(strings.ToLower(s))
			}
		case "reflect.ValueOf":
			if len(args) == 1 && args[0].Dyn != nil {
				return AVal{Kind: avUnknown, Dyn: args[0].Dyn, Tag: "reflect.Value"}
			}
		case "(reflect.Value).Kind":
			if len(args) == 1 && args[0].Tag == "reflect.Value" && args[0].Dyn != nil {
				if k, ok := reflectKindOf(args[0].Dyn); ok {
					return aInt(int64(k))
				}
			}
		case "unicode.Is":
			if t, ok := args[0].Any.(*unicode.RangeTable); ok {
				if k, ok := args[1].Int(); ok {
					return aBool(unicode.Is(t, rune(k)))
				}
			}
		case "unicode.IsSpace", "unicode.IsLetter", "unicode.IsDigit", "unicode.IsUpper", "unicode.IsLower":
			if k, ok := args[0].Int(); ok {
				r := rune(k)
				switch callee.Name() {
				case "IsSpace":
					return aBool(unicode.IsSpace(r))
				case "IsLetter":
					return aBool(unicode.IsLetter(r))
				case "IsDigit":
					return aBool(unicode.IsDigit(r))
				case "IsUpper":
					return aBool(unicode.IsUpper(r))
				case "IsLower":
					return aBool(unicode.IsLower(r))
				}
			}
		}
	}
	u := aUnknown(v)
	if callee != nil {
		u.Expr = &AExpr{Call: callee.String(), Args: args}
	}
	return u
}

func (ai *AInterp) builtin(st *AState, name string, args []AVal, site ssa.CallInstruction) AVal {
	var v ssa.Value
	if sv, ok := site.(ssa.Value); ok {
		v = sv
	}
	switch name {
	case "len":
		if s, ok := args[0].Str(); ok {
			return aInt(int64(len(s)))
		}
		if args[0].Kind == avNil {
			return aInt(0)
		}
		if args[0].Kind == avPtr && args[0].Field < 0 {
			o := st.obj(args[0].Obj)
			if o.IsMap && !o.Opaque {
				return aInt(int64(len(o.Map)))
			}
			if o.Len >= 0 {
				return aInt(int64(o.Len))
			}
		}
	case "append":
		// append(s, elems...) with s nil or a slice with known elements, and elems a known slice
		base := args[0]
		if len(args) == 2 && (base.Kind == avNil || base.Kind == avPtr && base.Field < 0 && st.obj(base.Obj).Len >= 0) {
			add := args[1]
			if add.Kind == avPtr && add.Field < 0 && st.obj(add.Obj).Len >= 0 {
				o := st.newObj(nil, v)
				if v != nil {
					o.Type = v.Type()
				}
				n := 0
				if base.Kind == avPtr {
					bo := st.obj(base.Obj)
					for i := 0; i < bo.Len; i++ {
						o.Fields[n] = bo.Fields[i]
						n++
					}
				}
				ao := st.obj(add.Obj)
				for i := 0; i < ao.Len; i++ {
					o.Fields[n] = ao.Fields[i]
					n++
				}
				o.Len = n
				return AVal{Kind: avPtr, Obj: o, Field: -1}
			}
		}
	}
	return aUnknown(v)
}

// elems returns the known elements of a slice value.
func (st *AState) elems(v AVal) ([]AVal, bool) {
	if v.Kind == avNil {
		return nil, true
	}
	if v.Kind != avPtr || v.Field >= 0 {
		return nil, false
	}
	o := st.obj(v.Obj)
	if o.Len < 0 {
		return nil, false
	}
	var out []AVal
	for i := 0; i < o.Len; i++ {
		out = append(out, o.Fields[i])
	}
	return out, true
}

// externObj makes an object standing for caller-provided memory with the
// given known fields (by field name).
func (st *AState) externObj(t types.Type, known map[string]AVal) *AObj {
	o := st.newObj(t, nil)
	o.Extern = true
	if stt, ok := t.Underlying().(*types.Struct); ok {
		for i := 0; i < stt.NumFields(); i++ {
			if v, ok := known[stt.Field(i).Name()]; ok {
				o.Fields[i] = v
			}
		}
	}
	return o
}

func fieldIndex(t types.Type, f *types.Var) int {
	if st, ok := t.Underlying().(*types.Struct); ok {
		for i := 0; i < st.NumFields(); i++ {
			if st.Field(i) == f {
				return i
			}
		}
	}
	return -1
}

func sortedKeysStr(m map[string]bool) []string {
	var s []string
	for k := range m {
		s = append(s, k)
	}
	sort.Strings(s)
	return s
}

// initState: the abstract state after package initialisation, as far as it
// is a straight line of constant stores (the enumeration structs flagsEnum,
// builderProps, queryProps, function-valued variables). Paths that fork
// (initialisers with unknown conditions) are not followed: the first outcome
// that completes is taken, and whatever it does not know stays unknown.
func (w *World) initState() *AState {
	if w.initStateCache != nil {
		return w.initStateCache.fork()
	}
	st := newAState()
	var initFn *ssa.Function
	for _, fn := range w.AllFuncs {
		if fn.Parent() == nil && fn.Name() == "init" && fn.Pkg == w.SSA {
			initFn = fn
		}
	}
	if initFn != nil {
		ai := w.newInterp(AHooks{})
		ai.InitMode = true
		ai.MaxVisits = 300 // initialisers loop over constant tables: deterministic, no forking
		ai.MaxDepth = 3
		ai.MaxSteps = 200000
		outs := ai.Exec(initFn, nil, nil, st)
		for _, o := range outs {
			if !o.Cut && !o.Panicked {
				st = o.St
				break
			}
		}
	}
	// only constants and function values are kept: everything else a run may not rely on
	// — except package-level tables that nothing writes after initialisation
	// (a map or slice literal of constants or functions used as a dispatch table)
	for g, o := range st.globals {
		if w.readOnlyGlobal(g) {
			o.Extern = false
			if v, ok := o.Fields[0]; ok && v.Kind == avFunc && v.Tag == "" {
				v.Tag = "var:" + g.Name()
				o.Fields[0] = v
			}
			continue
		}
		keep := false
		for _, v := range o.Fields {
			if v.isConst() || v.Kind == avFunc {
				keep = true
			}
		}
		if !keep {
			delete(st.globals, g)
			continue
		}
		for k, v := range o.Fields {
			if !v.isConst() && v.Kind != avFunc {
				delete(o.Fields, k)
			}
		}
		o.Extern = true
	}
	// keep only what the kept variables reach, and no table so large that
	// carrying it through every fork costs more than it tells (the Unicode
	// range tables of the scanner are evaluated separately, grammar_anchors.go)
	reach := func(root *AObj) map[int]bool {
		seen := map[int]bool{}
		var walk func(o *AObj)
		walk = func(o *AObj) {
			if o == nil || seen[o.ID] || len(seen) > 400 {
				return
			}
			seen[o.ID] = true
			o = st.obj(o)
			for _, v := range o.Fields {
				if (v.Kind == avPtr || v.Kind == avStruct) && v.Obj != nil {
					walk(v.Obj)
				}
				for _, b := range v.Bind {
					if b.Obj != nil {
						walk(b.Obj)
					}
				}
			}
			for _, v := range o.Map {
				if (v.Kind == avPtr || v.Kind == avStruct) && v.Obj != nil {
					walk(v.Obj)
				}
			}
		}
		walk(root)
		return seen
	}
	keepObj := map[int]bool{}
	for g, o := range st.globals {
		rs := reach(o)
		if len(rs) > 400 {
			delete(st.globals, g)
			continue
		}
		for id := range rs {
			keepObj[id] = true
		}
	}
	for id := range st.heap {
		if !keepObj[id] {
			delete(st.heap, id)
		}
	}
	st.Trace = nil
	w.initStateCache = st
	return st.fork()
}

func reflectKindOf(t types.Type) (reflect.Kind, bool) {
	switch u := t.Underlying().(type) {
	case *types.Basic:
		switch u.Kind() {
		case types.Bool:
			return reflect.Bool, true
		case types.Int:
			return reflect.Int, true
		case types.Int64:
			return reflect.Int64, true
		case types.Float64:
			return reflect.Float64, true
		case types.Float32:
			return reflect.Float32, true
		case types.String:
			return reflect.String, true
		}
	case *types.Pointer:
		return reflect.Ptr, true
	case *types.Struct:
		return reflect.Struct, true
	case *types.Slice:
		return reflect.Slice, true
	case *types.Map:
		return reflect.Map, true
	case *types.Interface:
		return reflect.Interface, true
	case *types.Signature:
		return reflect.Func, true
	}
	return 0, false
}

// readOnlyGlobal: outside package initialisation the variable is only read:
// never stored to, its address never taken for anything but a load, and what
// is loaded from it is only indexed, looked up, ranged over, measured or has
// its fields read (no element is assigned, it is not handed to a call that
// could write through it).
func (w *World) readOnlyGlobal(g *ssa.Global) bool {
	if w.roGlobalCache == nil {
		w.roGlobalCache = map[*ssa.Global]bool{}
	} else if v, ok := w.roGlobalCache[g]; ok {
		return v
	}
	ro := true
	var readOnlyUse func(v ssa.Value, depth int) bool
	readOnlyUse = func(v ssa.Value, depth int) bool {
		if depth > 6 {
			return false
		}
		for _, u := range uses(v) {
			switch x := u.(type) {
			case *ssa.Lookup, *ssa.Range, *ssa.DebugRef:
			case *ssa.Index:
				// element of an array value: reading
			case *ssa.IndexAddr:
				if x.X != v {
					continue
				}
				for _, u2 := range uses(x) {
					if ld, ok := u2.(*ssa.UnOp); ok && ld.Op == token.MUL {
						if !readOnlyUse(ld, depth+1) {
							return false
						}
						continue
					}
					if fa, ok := u2.(*ssa.FieldAddr); ok {
						if !readOnlyUse(fa, depth+1) {
							return false
						}
						continue
					}
					return false
				}
			case *ssa.FieldAddr:
				for _, u2 := range uses(x) {
					if ld, ok := u2.(*ssa.UnOp); ok && ld.Op == token.MUL {
						if !readOnlyUse(ld, depth+1) {
							return false
						}
						continue
					}
					return false
				}
			case *ssa.Field:
				if !readOnlyUse(x, depth+1) {
					return false
				}
			case *ssa.Extract:
				if !readOnlyUse(x, depth+1) {
					return false
				}
			case *ssa.Next:
			case *ssa.UnOp:
				if x.Op == token.MUL && x.X == v {
					if !readOnlyUse(x, depth+1) {
						return false
					}
				}
			case *ssa.BinOp, *ssa.If, *ssa.Return, *ssa.Phi, *ssa.Convert, *ssa.ChangeType, *ssa.TypeAssert, *ssa.MakeInterface, *ssa.Store:
				// a value read out of the table (a constant, a function): using it is not writing the table
				if st, ok := x.(*ssa.Store); ok && st.Addr == v {
					return false
				}
				if _, isRef := v.Type().Underlying().(*types.Map); isRef {
					return false
				}
				if _, isRef := v.Type().Underlying().(*types.Slice); isRef {
					return false
				}
				if _, isRef := v.Type().Underlying().(*types.Pointer); isRef {
					return false
				}
			case ssa.CallInstruction:
				cc := x.Common()
				if bi, ok := cc.Value.(*ssa.Builtin); ok && (bi.Name() == "len" || bi.Name() == "cap") {
					continue
				}
				if cc.Value == v {
					continue // calling a function read out of the table
				}
				// handed to a call: fine for values that cannot be written through,
				// and for a function of this package that only reads its parameter
				switch v.Type().Underlying().(type) {
				case *types.Map, *types.Slice, *types.Pointer:
					h := cc.StaticCallee()
					if h == nil || !w.inPkg(h) || len(h.Blocks) == 0 {
						return false
					}
					for i, a := range cc.Args {
						if a == v {
							if i >= len(h.Params) || !readOnlyUse(h.Params[i], depth+1) {
								return false
							}
						}
					}
				}
			case *ssa.MapUpdate:
				if x.Map == v {
					return false
				}
			default:
				return false
			}
		}
		return true
	}
	for _, fn := range w.AllFuncs {
		if fn.Name() == "init" && fn.Parent() == nil {
			continue
		}
		eachInstr(fn, false, func(_ *ssa.Function, in ssa.Instruction) {
			for _, op := range in.Operands(nil) {
				if *op != ssa.Value(g) {
					continue
				}
				ld, ok := in.(*ssa.UnOp)
				if ok && ld.Op == token.MUL {
					if !readOnlyUse(ld, 0) {
						ro = false
					}
					continue
				}
				if fa, ok := in.(*ssa.FieldAddr); ok && fa.X == ssa.Value(g) {
					for _, u2 := range uses(fa) {
						if l2, ok := u2.(*ssa.UnOp); ok && l2.Op == token.MUL {
							if !readOnlyUse(l2, 0) {
								ro = false
							}
							continue
						}
						ro = false
					}
					continue
				}
				ro = false
			}
		})
	}
	w.roGlobalCache[g] = ro
	return ro
}

// Float: the value as a float64 constant (integers included).
func (v AVal) Float() (float64, bool) {
	if v.Kind != avConst || v.C == nil {
		return 0, false
	}
	switch v.C.Kind() {
	case constant.Int, constant.Float:
		f, _ := constant.Float64Val(constant.ToFloat(v.C))
		return f, true
	}
	return 0, false
}
