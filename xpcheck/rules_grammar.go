package main

// Group G — grammar: G-TOKENS, G-LEVELS (C10); used by A-OPS (C07/C08).

import (
	"fmt"
	"go/constant"
	"go/token"
	"go/types"
	"sort"
	"strings"

	"golang.org/x/tools/go/ssa"
)

type OpRecog struct {
	IsName bool
	Name   string // name-operator spelling (or, and, div, mod)
	Tok    int64  // token constant
	Op     string // operator string handed to newOperatorNode ("<name>" = the scanned name itself)
}

type Level struct {
	Fn       *ssa.Function
	Kind     string // "binary" | "unary"
	Operand  *ssa.Function
	Rights   []*ssa.Function
	Ops      []OpRecog
	Problems []string
	Pos      token.Pos
}

// edgeFacts: what the edge P -> succ[idx] tells about the current token.
func (g *Grammar) edgeFacts(p *ssa.BasicBlock, succ *ssa.BasicBlock) []OpRecog {
	ifi := blockIf(p)
	if ifi == nil {
		return nil
	}
	onTrue := p.Succs[0] == succ
	if p.Succs[0] == p.Succs[1] {
		return nil
	}
	cond := ifi.Cond
	for {
		u, ok := cond.(*ssa.UnOp)
		if !ok || u.Op != token.NOT {
			break
		}
		cond = u.X
		onTrue = !onTrue
	}
	switch x := cond.(type) {
	case *ssa.BinOp:
		if x.Op != token.EQL && x.Op != token.NEQ {
			return nil
		}
		var fld ssa.Value
		var c ssa.Value
		if _, ok := x.Y.(*ssa.Const); ok {
			fld, c = x.X, x.Y
		} else {
			fld, c = x.Y, x.X
		}
		k, ok := constInt(c)
		if !ok || !g.isTokLoad(fld) {
			return nil
		}
		if (x.Op == token.EQL) == onTrue {
			return []OpRecog{{Tok: k}}
		}
	case *ssa.Call:
		if x.Call.StaticCallee() == g.TestOp && onTrue && len(x.Call.Args) == 2 {
			if s, ok := constString(x.Call.Args[1]); ok {
				return []OpRecog{{IsName: true, Name: s}}
			}
		}
	}
	return nil
}

func (g *Grammar) isTokLoad(v ssa.Value) bool {
	ld, ok := v.(*ssa.UnOp)
	if !ok || ld.Op != token.MUL {
		return false
	}
	fa, ok := ld.X.(*ssa.FieldAddr)
	return ok && fieldOfAddr(fa) == g.TokField
}

func (g *Grammar) isNameLoad(v ssa.Value) bool {
	ld, ok := v.(*ssa.UnOp)
	if !ok || ld.Op != token.MUL {
		return false
	}
	fa, ok := ld.X.(*ssa.FieldAddr)
	return ok && fieldOfAddr(fa) == g.NameField
}

// edgeNeg: the edge P -> succ is the no-match edge of a token test; returns
// the token that is excluded.
func (g *Grammar) edgeNeg(p *ssa.BasicBlock, succ *ssa.BasicBlock) (OpRecog, bool) {
	ifi := blockIf(p)
	if ifi == nil || p.Succs[0] == p.Succs[1] {
		return OpRecog{}, false
	}
	other := p.Succs[0]
	if other == succ {
		other = p.Succs[1]
	}
	f := g.edgeFacts(p, other)
	if len(f) == 1 {
		return f[0], true
	}
	return OpRecog{}, false
}

// blockFacts: the set of tokens possible on entry to b (nil = unknown),
// computed from positive token tests on incoming edges, minus tokens excluded
// by no-match edges, looking up through predecessors.
func (g *Grammar) blockFacts(b *ssa.BasicBlock, depth int) []OpRecog {
	return g.blockFacts2(b, depth, map[*ssa.BasicBlock]bool{})
}

func (g *Grammar) blockFacts2(b *ssa.BasicBlock, depth int, onPath map[*ssa.BasicBlock]bool) []OpRecog {
	if depth > 16 || len(b.Preds) == 0 || onPath[b] {
		return nil
	}
	onPath[b] = true
	defer delete(onPath, b)
	var out []OpRecog
	for _, p := range b.Preds {
		f := g.edgeFacts(p, b)
		if f == nil {
			if ex, ok := g.edgeNeg(p, b); ok {
				up := g.blockFacts2(p, depth+1, onPath)
				if up == nil {
					return nil
				}
				for _, u := range up {
					if u.IsName == ex.IsName && u.Name == ex.Name && u.Tok == ex.Tok {
						continue
					}
					f = append(f, u)
				}
				if len(f) == 0 {
					return nil
				}
			} else if blockIf(p) != nil {
				// a conditional edge that says nothing about the token: keep what was known before it
				f = g.blockFacts2(p, depth+1, onPath)
			} else {
				f = g.blockFacts2(p, depth+1, onPath)
			}
		}
		if f == nil {
			return nil
		}
		for _, x := range f {
			dup := false
			for _, y := range out {
				if x.IsName == y.IsName && x.Name == y.Name && x.Tok == y.Tok {
					dup = true
				}
			}
			if !dup {
				out = append(out, x)
			}
		}
	}
	return out
}

func isParserMethodCall(v ssa.Value, g *Grammar) *ssa.Function {
	c, ok := v.(*ssa.Call)
	if !ok {
		return nil
	}
	f := c.Call.StaticCallee()
	if f == nil || f.Signature.Recv() == nil || typeName(f.Signature.Recv().Type()) != g.ParserT.Obj().Name() {
		return nil
	}
	return f
}

// levelShape recognises one precedence level.
func (g *Grammar) levelShape(w *World, fn *ssa.Function) *Level {
	if fn == nil || len(fn.Blocks) == 0 {
		return nil
	}
	var calls []*ssa.Call
	eachInstr(fn, false, func(_ *ssa.Function, in ssa.Instruction) {
		if c, ok := in.(*ssa.Call); ok && c.Call.StaticCallee() == g.NewOp {
			calls = append(calls, c)
		}
	})
	if len(calls) == 0 {
		if w.buildsOperatorNodes(g, fn) {
			return g.levelShapeAI(w, fn)
		}
		return nil
	}
	lv := &Level{Fn: fn, Kind: "binary", Pos: fn.Pos()}
	// unary level: the right operand is a constant operand node
	if len(calls) == 1 && g.NewOperand != nil {
		if rc, ok := calls[0].Call.Args[2].(*ssa.Call); ok && rc.Call.StaticCallee() == g.NewOperand {
			return g.unaryShape(w, fn, calls[0], rc)
		}
	}
	if ai := g.levelShapeAI(w, fn); ai != nil {
		return ai
	}
	for _, c := range calls {
		left, right, op := c.Call.Args[1], c.Call.Args[2], c.Call.Args[0]
		// accumulator
		phi, ok := left.(*ssa.Phi)
		if !ok {
			if f := isParserMethodCall(left, g); f != nil {
				lv.Problems = append(lv.Problems, fmt.Sprintf("left operand of the operator node is a fresh call of %s, not the accumulated expression: the chain is not left-associative", f.Name()))
			} else {
				lv.Problems = append(lv.Problems, "left operand of the operator node is not the loop accumulator")
			}
		} else {
			for _, e := range phi.Edges {
				if f := isParserMethodCall(e, g); f != nil {
					if lv.Operand != nil && lv.Operand != f {
						lv.Problems = append(lv.Problems, "several initial operand parsers")
					}
					lv.Operand = f
				} else if cc, ok := e.(*ssa.Call); ok && cc.Call.StaticCallee() == g.NewOp {
					// accumulated
				} else {
					lv.Problems = append(lv.Problems, fmt.Sprintf("accumulator receives %s", e))
				}
			}
			// every return yields the accumulator
			for _, b := range fn.Blocks {
				if ret, ok := normalReturn(b); ok && len(ret.Results) == 1 {
					if ret.Results[0] != ssa.Value(phi) {
						lv.Problems = append(lv.Problems, "a return does not yield the accumulated expression")
					}
				}
			}
		}
		// right operand
		rv := right
		if f := isParserMethodCall(rv, g); f != nil {
			lv.Rights = append(lv.Rights, f)
			if f == fn {
				lv.Problems = append(lv.Problems, "the right operand is parsed by the level itself: the operator is right-associative")
			}
		} else {
			lv.Problems = append(lv.Problems, "right operand is not a fresh call of a parser level")
		}
		// operator
		switch x := op.(type) {
		case *ssa.Const:
			s, _ := constString(x)
			facts := g.blockFacts(c.Block(), 0)
			if facts == nil {
				lv.Problems = append(lv.Problems, fmt.Sprintf("operator %q is built without a recognisable token test", s))
			}
			for _, f := range facts {
				f.Op = s
				lv.Ops = append(lv.Ops, f)
			}
		case *ssa.Phi:
			for i, e := range x.Edges {
				pred := x.Block().Preds[i]
				var facts []OpRecog
				if f := g.edgeFacts(pred, x.Block()); f != nil {
					facts = f
				} else {
					facts = g.blockFacts(pred, 0)
				}
				if facts == nil {
					lv.Problems = append(lv.Problems, fmt.Sprintf("operator value %s reaches the operator node without a recognisable token test", e))
					continue
				}
				if s, ok := constString(e); ok {
					for _, f := range facts {
						f.Op = s
						lv.Ops = append(lv.Ops, f)
					}
				} else if g.isNameLoad(e) {
					for _, f := range facts {
						if !f.IsName {
							lv.Problems = append(lv.Problems, "the scanned name is used as operator under a non-name token test")
						}
						f.Op = f.Name
						lv.Ops = append(lv.Ops, f)
					}
				} else {
					lv.Problems = append(lv.Problems, fmt.Sprintf("operator string comes from %s", e))
				}
			}
		default:
			if g.isNameLoad(op) {
				for _, f := range g.blockFacts(c.Block(), 0) {
					f.Op = f.Name
					lv.Ops = append(lv.Ops, f)
				}
			} else {
				lv.Problems = append(lv.Problems, fmt.Sprintf("operator string comes from %s", op))
			}
		}
		// the operator token is consumed between recognition and the right operand
		if !g.consumesBefore(w, c) {
			lv.Problems = append(lv.Problems, "the operator token is not consumed before the right operand is parsed")
		}
	}
	if lv.Operand == nil {
		lv.Problems = append(lv.Problems, "no initial operand parser found")
	}
	return lv
}

// consumesBefore: a call to a token consumer precedes the right-operand call
// in the block of the operator-node construction.
func (g *Grammar) consumesBefore(w *World, c *ssa.Call) bool {
	right, ok := c.Call.Args[2].(*ssa.Call)
	if !ok {
		return true
	}
	for _, in := range right.Block().Instrs {
		if in == ssa.Instruction(right) {
			break
		}
		if ci, ok := in.(ssa.CallInstruction); ok {
			if f := ci.Common().StaticCallee(); f != nil && w.reachesFn(f, g.NextItem, 3) {
				return true
			}
		}
	}
	return false
}

func (w *World) reachesFn(from, to *ssa.Function, depth int) bool {
	if from == to {
		return true
	}
	if depth == 0 {
		return false
	}
	for _, c := range w.pkgCallees(from) {
		if w.reachesFn(c, to, depth-1) {
			return true
		}
	}
	return false
}

func (g *Grammar) unaryShape(w *World, fn *ssa.Function, c, rc *ssa.Call) *Level {
	lv := &Level{Fn: fn, Kind: "unary", Pos: fn.Pos()}
	op, _ := constString(c.Call.Args[0])
	// -1 constant
	neg := false
	if mi, ok := rc.Call.Args[0].(*ssa.MakeInterface); ok {
		if k, ok := mi.X.(*ssa.Const); ok && k.Value != nil {
			if f, ok := constant.Float64Val(constant.ToFloat(k.Value)); ok && f == -1 {
				neg = true
			}
		}
	}
	if op != "*" || !neg {
		lv.Problems = append(lv.Problems, fmt.Sprintf("unary minus is built as operand %s <const>, not operand * -1", op))
	}
	if f := isParserMethodCall(c.Call.Args[1], g); f != nil {
		lv.Operand = f
	} else {
		lv.Problems = append(lv.Problems, "operand of the unary minus is not a fresh call of the next level")
	}
	// the loop: recognises a token, consumes it and toggles a bool that
	// controls the negation
	var loopFacts []OpRecog
	for _, comp := range cfgSCCs(fn) {
		for _, b := range comp {
			for _, s := range b.Succs {
				in := false
				for _, x := range comp {
					if x == s {
						in = true
					}
				}
				if in {
					if f := g.edgeFacts(b, s); f != nil {
						loopFacts = append(loopFacts, f...)
					}
				}
			}
		}
	}
	for _, f := range loopFacts {
		f.Op = "neg"
		lv.Ops = append(lv.Ops, f)
	}
	if len(loopFacts) == 0 {
		lv.Problems = append(lv.Problems, "no prefix loop recognising the minus token")
	}
	// negation applied under the parity flag: the block of c is entered on the true edge of a phi-bool
	ctrl := false
	for _, p := range c.Block().Preds {
		if ifi := blockIf(p); ifi != nil && p.Succs[0] == c.Block() {
			if phi, ok := ifi.Cond.(*ssa.Phi); ok {
				// edges: false const and NOT of itself
				hasFalse, hasNot := false, false
				for _, e := range phi.Edges {
					if k, ok := e.(*ssa.Const); ok && k.Value != nil && k.Value.Kind() == constant.Bool && !constant.BoolVal(k.Value) {
						hasFalse = true
					}
					if u, ok := e.(*ssa.UnOp); ok && u.Op == token.NOT && u.X == ssa.Value(phi) {
						hasNot = true
					}
				}
				ctrl = hasFalse && hasNot
			}
		}
	}
	if !ctrl {
		lv.Problems = append(lv.Problems, "the negation is not controlled by the parity of the consumed minus signs")
	}
	return lv
}

// precedence oracle: XPath 1.0 section 3.
var xpathLevels = [][]string{
	{"or"},
	{"and"},
	{"=", "!="},
	{"<", ">", "<=", ">="},
	{"+", "-"},
	{"*", "div", "mod"},
	{"neg"},
	{"|"},
}

func ruleGLevels(w *World, r *Report) {
	r.rule("G-LEVELS", "the precedence chain extracted from the parser (entry level, then for every level the function that parses its operands) equals the XPath 1.0 table or < and < {=,!=} < {<,>,<=,>=} < {+,-} < {*,div,mod} < unary minus < |: each level recognises exactly its operators, maps each recognised source spelling to the same operator string, accumulates on the left, parses the right operand with the next level and consumes the operator token; unary minus is operand * -1 under the parity of the minus signs")
	g, err := w.grammar()
	if err != nil {
		r.bad("ANCHOR", "G-LEVELS", "", err.Error())
		return
	}
	tokText := map[int64][]string{}
	for t, k := range g.TextTok {
		tokText[k] = append(tokText[k], t)
	}
	fn := g.EntryLevel
	var levels []*Level
	seen := map[*ssa.Function]bool{}
	for fn != nil && !seen[fn] {
		seen[fn] = true
		lv := g.levelShape(w, fn)
		if lv == nil {
			break
		}
		levels = append(levels, lv)
		r.FuncsAnalysed[fnName(fn)] = true
		fn = lv.Operand
	}
	if len(levels) != len(xpathLevels) {
		var names []string
		for _, l := range levels {
			names = append(names, l.Fn.Name())
		}
		r.bad("G-LEVELS", "chain-length", w.pos(g.EntryLevel.Pos()), fmt.Sprintf("the parser has %d operator levels %v, XPath 1.0 has %d", len(levels), names, len(xpathLevels)))
	} else {
		r.ok("G-LEVELS", "chain-length", w.pos(g.EntryLevel.Pos()), fmt.Sprintf("%d operator levels", len(levels)))
	}
	for i, lv := range levels {
		key := fmt.Sprintf("level%d", i+1)
		pos := w.pos(lv.Pos)
		if w.curProp == "C07" && i >= 4 {
			// C07 speaks of or, and and the six comparison operators only
			continue
		}
		// spellings recognised -> operator strings
		got := map[string]string{}
		for _, o := range lv.Ops {
			if o.IsName {
				got[o.Name] = o.Op
			} else {
				texts := tokText[o.Tok]
				if len(texts) == 0 {
					lv.Problems = append(lv.Problems, fmt.Sprintf("token %s is recognised but the scanner never produces it", g.tokName(o.Tok)))
				}
				for _, t := range texts {
					got[t] = o.Op
				}
			}
		}
		var want []string
		if i < len(xpathLevels) {
			want = xpathLevels[i]
		}
		var gotKeys []string
		for k := range got {
			gotKeys = append(gotKeys, k)
		}
		sort.Strings(gotKeys)
		ws := append([]string{}, want...)
		sort.Strings(ws)
		wantSpell := ws
		if len(want) == 1 && want[0] == "neg" {
			wantSpell = []string{"-"}
		}
		if strings.Join(gotKeys, " ") != strings.Join(wantSpell, " ") {
			r.bad("G-LEVELS", key+":operators", pos, fmt.Sprintf("level %d (%s) recognises %v, XPath 1.0 has %v at this precedence", i+1, lv.Fn.Name(), gotKeys, wantSpell))
		} else {
			r.ok("G-LEVELS", key+":operators", pos, fmt.Sprintf("%s recognises %v", lv.Fn.Name(), gotKeys))
		}
		// mapping is the identity on spellings
		badmap := ""
		for sp, op := range got {
			if lv.Kind == "unary" {
				continue
			}
			if sp != op {
				badmap += fmt.Sprintf(" %q is turned into operator %q;", sp, op)
			}
		}
		if badmap != "" {
			r.bad("G-LEVELS", key+":mapping", pos, fmt.Sprintf("in %s%s", lv.Fn.Name(), badmap))
		} else {
			r.ok("G-LEVELS", key+":mapping", pos, "each source spelling yields the operator of the same spelling")
		}
		// associativity / operands
		if lv.Kind == "binary" {
			okr := true
			for _, f := range lv.Rights {
				if f != lv.Operand {
					okr = false
				}
			}
			if !okr {
				lv.Problems = append(lv.Problems, "the right operand is not parsed by the same next level as the left operand")
			}
		}
		if len(lv.Problems) > 0 {
			r.bad("G-LEVELS", key+":shape", pos, fmt.Sprintf("%s: %s", lv.Fn.Name(), strings.Join(dedup(lv.Problems), "; ")))
		} else {
			detail := "left-associative loop; right operand parsed by " + nameOf(lv.Operand)
			if lv.Kind == "unary" {
				detail = "prefix minus loop with parity; operand * -1 over " + nameOf(lv.Operand)
			}
			r.ok("G-LEVELS", key+":shape", pos, detail)
		}
	}
}

func nameOf(f *ssa.Function) string {
	if f == nil {
		return "?"
	}
	return f.Name()
}

func dedup(s []string) []string {
	seen := map[string]bool{}
	var out []string
	for _, x := range s {
		if !seen[x] {
			seen[x] = true
			out = append(out, x)
		}
	}
	return out
}

// ---------- G-TOKENS ----------

var xpathTokenTexts = []string{",", "/", "//", "@", ".", "..", "(", ")", "[", "]", "*", "+", "-", "=", "<", ">", "<=", ">=", "!=", "|", "$"}

func ruleGTokens(w *World, r *Report) {
	r.rule("G-TOKENS", "the scanner's tables map every XPath 1.0 punctuation token to a token constant, injectively (distinct spellings, distinct tokens); every character routed to the character table has an entry; the scanner skips white space before every token and before looking for '(' after a name; the name-character predicate accepts no ASCII punctuation outside XML NameChar {-, ., _} and rejects NUL")
	g, err := w.grammar()
	if err != nil {
		r.bad("ANCHOR", "G-TOKENS", "", err.Error())
		return
	}
	r.FuncsAnalysed[fnName(g.NextItem)] = true
	pos := w.pos(g.NextItemDecl.Pos())
	inv := map[int64]string{}
	for _, t := range xpathTokenTexts {
		k, ok := g.TextTok[t]
		if !ok {
			r.bad("G-TOKENS", "token:"+t, pos, fmt.Sprintf("the scanner produces no token for %q", t))
			continue
		}
		if k < 0 {
			r.bad("G-TOKENS", "token:"+t, pos, fmt.Sprintf("%q is routed to the character table but has no entry there", t))
			continue
		}
		if prev, dup := inv[k]; dup {
			r.bad("G-TOKENS", "token:"+t, pos, fmt.Sprintf("%q and %q yield the same token %s: the parser cannot tell them apart", prev, t, g.tokName(k)))
			continue
		}
		inv[k] = t
		r.ok("G-TOKENS", "token:"+t, pos, "-> "+g.tokName(k))
	}
	for t, k := range g.TextTok {
		if k < 0 {
			known := false
			for _, x := range xpathTokenTexts {
				if x == t {
					known = true
				}
			}
			if !known {
				r.note("G-TOKENS: character %q is routed to the character table without an entry (panics inside recover => Compile error)", t)
			}
		}
	}
	// white space: first call of nextItem is the space skipper
	var firstCall *ssa.Function
	for _, in := range g.NextItem.Blocks[0].Instrs {
		if c, ok := in.(*ssa.Call); ok {
			firstCall = c.Call.StaticCallee()
			break
		}
	}
	if firstCall != nil && w.isSpaceSkipper(firstCall) {
		r.ok("G-TOKENS", "skip-space-first", pos, "nextItem starts by skipping white space")
	} else {
		r.bad("G-TOKENS", "skip-space-first", pos, "nextItem does not start by skipping white space: inserting a space before a token changes the token stream")
	}
	// canBeFunc computed after skipping space
	found := false
	for _, fam := range w.scannerFamily(g) {
		eachInstr(fam, false, func(_ *ssa.Function, in ssa.Instruction) {
			st, ok := in.(*ssa.Store)
			if !ok {
				return
			}
			fa, ok := st.Addr.(*ssa.FieldAddr)
			if !ok || !isRecv(fa.X) {
				return
			}
			if b, ok := fieldOfAddr(fa).Type().(*types.Basic); !ok || b.Kind() != types.Bool {
				return
			}
			bo, ok := st.Val.(*ssa.BinOp)
			if !ok || bo.Op != token.EQL {
				return
			}
			k, ok := constInt(bo.Y)
			if !ok || k != '(' {
				return
			}
			found = true
			// nearest preceding call in the block
			var prev *ssa.Function
			for _, x := range st.Block().Instrs {
				if x == ssa.Instruction(st) {
					break
				}
				if c, ok := x.(*ssa.Call); ok {
					prev = c.Call.StaticCallee()
				}
			}
			if prev != nil && w.isSpaceSkipper(prev) {
				r.ok("G-TOKENS", "space-before-paren", w.instrPos(st), "white space between a name and '(' is skipped before deciding that the name is a function call")
			} else {
				r.bad("G-TOKENS", "space-before-paren", w.instrPos(st), "the '(' look-ahead after a name is done without skipping white space first: `f (x)` and `f(x)` parse differently")
			}
		})
	}
	if !found {
		r.bad("G-TOKENS", "space-before-paren", pos, "no '(' look-ahead after a name found")
	}
	// name-character predicate
	w.checkNameChars(r, g)
}

func (w *World) isSpaceSkipper(f *ssa.Function) bool {
	if f == nil {
		return false
	}
	found := false
	eachInstr(f, false, func(_ *ssa.Function, in ssa.Instruction) {
		if c, ok := in.(*ssa.Call); ok {
			if cal := c.Call.StaticCallee(); cal != nil && cal.Pkg != nil && cal.Pkg.Pkg.Path() == "unicode" && cal.Name() == "IsSpace" {
				found = true
			}
		}
	})
	return found && len(cfgSCCs(f)) > 0
}

// scannerFamily: nextItem and the scanner methods reachable from it.
func (w *World) scannerFamily(g *Grammar) []*ssa.Function {
	seen := map[*ssa.Function]bool{}
	var out []*ssa.Function
	var visit func(f *ssa.Function)
	visit = func(f *ssa.Function) {
		if seen[f] {
			return
		}
		seen[f] = true
		out = append(out, f)
		for _, c := range w.pkgCallees(f) {
			if c.Signature.Recv() != nil && typeName(c.Signature.Recv().Type()) == g.ScannerT.Obj().Name() {
				visit(c)
			}
		}
	}
	visit(g.NextItem)
	return out
}

// evalPredOn: the value of a pure rune predicate on a constant, by constant
// propagation through its body (range tables are read off their literals).
func (w *World) evalPredOn(pred *ssa.Function, c rune) (bool, error) {
	tabs := w.rangeTables()
	hooks := AHooks{}
	hooks.Global = func(st *AState, gl *ssa.Global) *AObj {
		if v, ok := gl.Object().(*types.Var); ok {
			if t, ok := tabs[v]; ok {
				o := st.newObj(gl.Type().(*types.Pointer).Elem(), gl)
				o.Fields[0] = AVal{Kind: avUnknown, Any: t}
				return o
			}
		}
		return nil
	}
	ai := w.newInterp(hooks)
	outs := ai.Exec(pred, []AVal{aInt(int64(c))}, nil, w.initState())
	res, have := false, false
	for _, o := range outs {
		if o.Cut || o.Panicked {
			return false, fmt.Errorf("predicate %s cannot be followed for %q", pred.Name(), c)
		}
		b, ok := o.Ret.Bool()
		if !ok {
			return false, fmt.Errorf("predicate %s does not reduce to a constant for %q", pred.Name(), c)
		}
		if have && b != res {
			return false, fmt.Errorf("predicate %s has two values for %q", pred.Name(), c)
		}
		res, have = b, true
	}
	if !have {
		return false, fmt.Errorf("predicate %s has no outcome for %q", pred.Name(), c)
	}
	return res, nil
}

func (w *World) checkNameChars(r *Report, g *Grammar) {
	// the predicate guarding the name scanner: the conditional-consumer
	// predicate of the scanner method whose result is stored in the name field
	var pred *ssa.Function
	for _, fam := range w.scannerFamily(g) {
		eachInstr(fam, false, func(_ *ssa.Function, in ssa.Instruction) {
			if st, ok := in.(*ssa.Store); ok {
				if fa, ok := st.Addr.(*ssa.FieldAddr); ok && fieldOfAddr(fa) == g.NameField {
					if c, ok := st.Val.(*ssa.Call); ok {
						if sc := c.Call.StaticCallee(); sc != nil {
							if p := w.condConsumer(sc, map[*ssa.Function]bool{g.NextChar: true}); p != nil {
								pred = p
							}
						}
					}
				}
			}
		})
	}
	if pred == nil {
		r.bad("ANCHOR", "G-TOKENS:namechar", "", "name-character predicate not found")
		return
	}
	allowed := map[rune]bool{'-': true, '.': true, '_': true}
	var badc []string
	pos := w.pos(pred.Pos())
	for c := rune(0); c < 128; c++ {
		isAlnum := c >= '0' && c <= '9' || c >= 'a' && c <= 'z' || c >= 'A' && c <= 'Z'
		v, err := w.evalPredOn(pred, c)
		if err != nil {
			r.undec("G-TOKENS", "namechar", pos, "cannot interpret the name-character predicate: "+err.Error())
			return
		}
		if v && !isAlnum && !allowed[c] {
			badc = append(badc, fmt.Sprintf("%q", c))
		}
		if !v && (isAlnum || allowed[c]) {
			badc = append(badc, fmt.Sprintf("rejects %q", c))
		}
	}
	if len(badc) > 0 {
		r.bad("G-TOKENS", "namechar", pos, fmt.Sprintf("%s accepts/rejects the wrong ASCII characters: %v — an operator character glued to a name becomes part of the name, so removing optional white space changes the meaning (a * 2 vs a*2)", pred.Name(), badc))
	} else {
		r.ok("G-TOKENS", "namechar", pos, pred.Name()+" accepts exactly alphanumerics and - . _ among ASCII; NUL rejected")
	}
}
