package main

// Group N — navigator ownership and the context register (C01 C03 C11 C12 C13).

import (
	"fmt"
	"go/token"
	"go/types"
	"sort"
	"strings"

	"golang.org/x/tools/go/ssa"
)

// ---- navigator method classes ----

func (w *World) navMethodClass(name string) string {
	for i := 0; i < w.NavIface.NumMethods(); i++ {
		m := w.NavIface.Method(i)
		if m.Name() != name {
			continue
		}
		sig := m.Type().(*types.Signature)
		if sig.Results().Len() == 1 && w.isNavType(sig.Results().At(0).Type()) {
			return "copy"
		}
		if sig.Results().Len() == 0 {
			return "move"
		}
		if b, ok := sig.Results().At(0).Type().(*types.Basic); ok && b.Kind() == types.Bool {
			return "move"
		}
		return "read"
	}
	return ""
}

func (w *World) isNavCall(c ssa.CallInstruction) (recv ssa.Value, method, class string, ok bool) {
	cc := c.Common()
	if !cc.IsInvoke() || !w.isNavType(cc.Value.Type()) {
		return nil, "", "", false
	}
	return cc.Value, cc.Method.Name(), w.navMethodClass(cc.Method.Name()), true
}

// ---- reaching stores for variable cells ----

type reachInfo struct {
	stores []*ssa.Store
}

// cellReaching returns the values that can be in the cell when load executes.
func (w *World) cellReaching(load *ssa.UnOp) ([]ssa.Value, bool) {
	a := cellOf(load.X)
	if a == nil || cellEscapes(a) {
		return nil, false
	}
	home := a.Parent()
	fn := load.Parent()
	var out []ssa.Value
	add := func(sts []*ssa.Store) {
		for _, st := range sts {
			dup := false
			for _, v := range out {
				if v == st.Val {
					dup = true
				}
			}
			if !dup {
				out = append(out, st.Val)
			}
		}
	}
	// stores performed inside nested closures can be seen by any later load
	var nested []*ssa.Store
	for _, g := range closuresOf(home)[1:] {
		for _, b := range g.Blocks {
			for _, in := range b.Instrs {
				if st, ok := in.(*ssa.Store); ok && cellOf(st.Addr) == a {
					nested = append(nested, st)
				}
			}
		}
	}
	if fn == home {
		add(reachingAt(home, a, load))
		add(nested)
		return out, true
	}
	// load inside a closure: what reaches the creation of the outermost
	// enclosing closure in home, plus everything after it, plus nested stores
	g := fn
	for g.Parent() != home {
		g = g.Parent()
		if g == nil {
			return nil, false
		}
	}
	var mc *ssa.MakeClosure
	for _, b := range home.Blocks {
		for _, in := range b.Instrs {
			if m, ok := in.(*ssa.MakeClosure); ok && m.Fn == g {
				mc = m
			}
		}
	}
	if mc == nil {
		return nil, false
	}
	add(reachingAt(home, a, mc))
	// stores in home that can execute after the closure was created
	after := reachableFrom(mc.Block(), nil)
	for _, b := range home.Blocks {
		for _, in := range b.Instrs {
			st, ok := in.(*ssa.Store)
			if !ok || st.Addr != ssa.Value(a) {
				continue
			}
			if b == mc.Block() {
				if instrIndex(st) > instrIndex(mc) {
					add([]*ssa.Store{st})
				} else if inCycle(b) {
					add([]*ssa.Store{st})
				}
			} else if after[b] {
				// a new activation of the declaring block creates a new cell
				// (the Alloc is executed again), so stores that can only be
				// reached by passing the Alloc again do not affect this cell
				if b == a.Block() && instrIndex(st) > instrIndex(a) {
					continue
				}
				if !onlyViaAlloc(mc.Block(), b, a.Block()) {
					add([]*ssa.Store{st})
				}
			}
		}
	}
	add(nested)
	return out, true
}

func inCycle(b *ssa.BasicBlock) bool {
	for _, comp := range cfgSCCs(b.Parent()) {
		for _, x := range comp {
			if x == b {
				return true
			}
		}
	}
	return false
}

// onlyViaAlloc: every path from `from` to `to` passes through allocBlock
// (strictly after leaving from).
func onlyViaAlloc(from, to, allocBlock *ssa.BasicBlock) bool {
	if allocBlock == from {
		// the cell is allocated in the same block as the closure: re-entering
		// that block re-allocates; paths that reach `to` without re-entering?
		seen := map[*ssa.BasicBlock]bool{}
		var dfs func(b *ssa.BasicBlock) bool
		dfs = func(b *ssa.BasicBlock) bool {
			if b == to {
				return true
			}
			if seen[b] || b == allocBlock {
				return false
			}
			seen[b] = true
			for _, s := range b.Succs {
				if dfs(s) {
					return true
				}
			}
			return false
		}
		for _, s := range from.Succs {
			if s == to && to != allocBlock {
				return false
			}
			if s != allocBlock && dfs(s) {
				return false
			}
		}
		return true
	}
	seen := map[*ssa.BasicBlock]bool{}
	var dfs func(b *ssa.BasicBlock) bool
	dfs = func(b *ssa.BasicBlock) bool {
		if b == to {
			return true
		}
		if seen[b] || b == allocBlock {
			return false
		}
		seen[b] = true
		for _, s := range b.Succs {
			if dfs(s) {
				return true
			}
		}
		return false
	}
	for _, s := range from.Succs {
		if dfs(s) {
			return false
		}
	}
	return true
}

// reachingAt: stores to cell a (in its home function) reaching instruction at.
func reachingAt(fn *ssa.Function, a *ssa.Alloc, at ssa.Instruction) []*ssa.Store {
	type set map[*ssa.Store]bool
	in := map[*ssa.BasicBlock]set{}
	out := map[*ssa.BasicBlock]set{}
	for _, b := range fn.Blocks {
		in[b], out[b] = set{}, set{}
	}
	changed := true
	for changed {
		changed = false
		for _, b := range fn.Blocks {
			cur := set{}
			for _, p := range b.Preds {
				for s := range out[p] {
					cur[s] = true
				}
			}
			in[b] = cur
			o := set{}
			for s := range cur {
				o[s] = true
			}
			for _, ins := range b.Instrs {
				if ins == ssa.Instruction(a) {
					o = set{} // a fresh cell
				}
				if st, ok := ins.(*ssa.Store); ok && st.Addr == ssa.Value(a) {
					o = set{st: true}
				}
			}
			if len(o) != len(out[b]) {
				changed = true
			} else {
				for s := range o {
					if !out[b][s] {
						changed = true
					}
				}
			}
			out[b] = o
		}
	}
	cur := set{}
	for s := range in[at.Block()] {
		cur[s] = true
	}
	for _, ins := range at.Block().Instrs {
		if ins == at {
			break
		}
		if ins == ssa.Instruction(a) {
			cur = set{}
		}
		if st, ok := ins.(*ssa.Store); ok && st.Addr == ssa.Value(a) {
			cur = set{st: true}
		}
	}
	var res []*ssa.Store
	for s := range cur {
		res = append(res, s)
	}
	sort.Slice(res, func(i, j int) bool { return res[i].Pos() < res[j].Pos() })
	return res
}

// ---- ownership ----

type ownCtx struct {
	visitedLists map[listKey]bool
	w            *World
	visited      map[ssa.Value]bool
	why          []string
}

// isContextRegister: v == t.Current() for an iterator-typed t.
func (w *World) isContextRegister(v ssa.Value) bool {
	c, ok := strip(v).(*ssa.Call)
	if !ok || !c.Call.IsInvoke() {
		return false
	}
	if c.Call.Method.Name() != "Current" {
		return false
	}
	// the interface with the single method Current() NodeNavigator
	it, ok := c.Call.Value.Type().Underlying().(*types.Interface)
	return ok && it.NumMethods() == 1
}

func (w *World) owned(v ssa.Value) (bool, string) {
	o := &ownCtx{w: w, visited: map[ssa.Value]bool{}}
	ok := o.owned(v, 0)
	return ok, strings.Join(o.why, "; ")
}

func (o *ownCtx) owned(v ssa.Value, depth int) bool {
	w := o.w
	v = strip(v)
	if mi, ok := v.(*ssa.MakeInterface); ok {
		v = strip(mi.X)
	}
	if o.visited[v] {
		return true // cycle through phi/cell: decided by the other edges
	}
	o.visited[v] = true
	if depth > 24 {
		o.why = append(o.why, "derivation too deep")
		return false
	}
	switch x := v.(type) {
	case *ssa.Const:
		return true
	case *ssa.Call:
		if x.Call.IsInvoke() && w.isNavType(x.Call.Value.Type()) && w.navMethodClass(x.Call.Method.Name()) == "copy" {
			return true
		}
		if w.isContextRegister(x) {
			o.why = append(o.why, "it is t.Current(), the context cursor shared by the whole evaluation")
			return false
		}
		if x.Call.IsInvoke() && w.isQueryType(x.Call.Value.Type()) {
			o.why = append(o.why, fmt.Sprintf("it is the result of %s() of another query (that query's own cursor), not a Copy()", x.Call.Method.Name()))
			return false
		}
		// a plain helper of the package every normal return of which is owned
		if h := x.Call.StaticCallee(); h != nil && w.inPkg(h) && len(h.Blocks) > 0 && h.Signature.Results().Len() == 1 {
			all, any := true, false
			for _, hb := range h.Blocks {
				if ret, ok := normalReturn(hb); ok {
					any = true
					if !o.owned(retVal(ret, 0), depth+1) {
						all = false
					}
				}
			}
			if all && any {
				return true
			}
		}
		o.why = append(o.why, "it is the result of "+x.Call.String())
		return false
	case *ssa.Phi:
		for _, e := range x.Edges {
			if !o.owned(e, depth+1) {
				return false
			}
		}
		return true
	case *ssa.UnOp:
		if x.Op != token.MUL {
			break
		}
		if fa, ok := x.X.(*ssa.FieldAddr); ok {
			return o.fieldOwned(fa, depth)
		}
		// an element of a list every entry of which is owned
		if ia, ok := x.X.(*ssa.IndexAddr); ok {
			if o.listOwned(ia.X, depth+1) {
				return true
			}
			o.why = append(o.why, "it is an element of a list not every entry of which is known to be a copy")
			return false
		}
		vals, ok := w.cellReaching(x)
		if !ok {
			o.why = append(o.why, "it is loaded from memory that cannot be tracked")
			return false
		}
		if len(vals) == 0 {
			return true
		}
		for _, val := range vals {
			if !o.owned(val, depth+1) {
				return false
			}
		}
		return true
	case *ssa.Parameter:
		fn := x.Parent()
		idx := -1
		for i, p := range fn.Params {
			if p == x {
				idx = i
			}
		}
		n := w.CG.Nodes[fn]
		if n == nil || len(n.In) == 0 || fn.Object() == nil || fn.Object().Exported() {
			o.why = append(o.why, "it is parameter "+x.Name()+" of "+fnName(fn)+", whose callers are unknown")
			return false
		}
		for _, e := range n.In {
			args := e.Site.Common().Args
			if e.Site.Common().IsInvoke() {
				o.why = append(o.why, "parameter passed through an interface call")
				return false
			}
			if idx >= len(args) {
				return false
			}
			if !o.owned(args[idx], depth+1) {
				o.why = append(o.why, fmt.Sprintf("(argument of %s at %s)", fn.Name(), w.instrPos(e.Site)))
				return false
			}
		}
		return true
	case *ssa.Extract, *ssa.TypeAssert, *ssa.Lookup, *ssa.Index:
		o.why = append(o.why, fmt.Sprintf("it comes from %s", v))
		return false
	}
	o.why = append(o.why, fmt.Sprintf("it is %s", v))
	return false
}

// fieldOwned: a navigator-typed field is owned when every store into that
// field of that struct type stores an owned value.
func (o *ownCtx) fieldOwned(fa *ssa.FieldAddr, depth int) bool {
	w := o.w
	st := structOfAddr(fa)
	fld := fieldOfAddr(fa)
	if st == nil {
		o.why = append(o.why, "field of an anonymous struct")
		return false
	}
	found := false
	for _, fn := range w.AllFuncs {
		for _, b := range fn.Blocks {
			for _, in := range b.Instrs {
				s, ok := in.(*ssa.Store)
				if !ok {
					continue
				}
				fa2, ok := s.Addr.(*ssa.FieldAddr)
				if !ok || structOfAddr(fa2) != st || fieldOfAddr(fa2) != fld {
					continue
				}
				found = true
				if !o.owned(s.Val, depth+1) {
					o.why = append(o.why, fmt.Sprintf("(stored into %s.%s at %s)", st.Obj().Name(), fld.Name(), w.instrPos(s)))
					return false
				}
			}
		}
	}
	if !found {
		o.why = append(o.why, "field "+fld.Name()+" is never assigned")
		return false
	}
	return true
}

// ---- N-OWN ----

func ruleNOwn(w *World, r *Report) {
	r.rule("N-OWN", "every call of a moving NodeNavigator method (MoveTo*, MoveToRoot) in run-time code is made on a cursor the caller owns: a Copy() result (through locals, closure variables with reaching stores, phis, navigator fields whose every store is owned, parameters all of whose call sites pass owned cursors). The context cursor t.Current() may only be the receiver of MoveTo with an owned argument (set to a candidate / restored); the iterator's own node only of MoveTo. A cursor returned by another query's Select, or t.Current() itself, is borrowed: moving it corrupts the producer's iteration or the caller's context")
	iterT, _, ni, _ := w.iterStruct()
	n := 0
	for _, fn := range w.AllFuncs {
		if !w.RunTime[fn] {
			continue
		}
		for _, b := range fn.Blocks {
			for _, in := range b.Instrs {
				ci, ok := in.(ssa.CallInstruction)
				if !ok {
					continue
				}
				recv, method, class, ok := w.isNavCall(ci)
				if !ok || class != "move" {
					continue
				}
				n++
				r.FuncsAnalysed[fnName(fn)] = true
				key := fmt.Sprintf("%s:%s", fnName(fn), method)
				pos := w.instrPos(in)
				isSet := method == "MoveTo" && len(ci.Common().Args) == 1
				if w.isContextRegister(recv) {
					if !isSet {
						r.bad("N-OWN", key, pos, fmt.Sprintf("%s() is called on t.Current(), the context cursor of the whole evaluation: every later step and the caller see a moved context", method))
						continue
					}
					if ok, why := w.owned(ci.Common().Args[0]); ok {
						r.ok("N-OWN", key, pos, "context register set to an owned copy")
					} else {
						r.bad("N-OWN", key, pos, "the context cursor is set from a cursor the function does not own: "+why)
					}
					continue
				}
				// the iterator's own node
				if ld, ok := strip(recv).(*ssa.UnOp); ok {
					if fa, ok := ld.X.(*ssa.FieldAddr); ok && structOfAddr(fa) == iterT && fa.Field == ni {
						if isSet {
							r.ok("N-OWN", key, pos, "the iterator positions its own node")
						} else {
							r.bad("N-OWN", key, pos, "the iterator's node is moved other than by MoveTo")
						}
						continue
					}
				}
				if ok, why := w.owned(recv); ok {
					r.ok("N-OWN", key, pos, "receiver is an owned copy")
				} else {
					r.bad("N-OWN", key, pos, fmt.Sprintf("%s() moves a cursor %s does not own: %s", method, fnName(fn), why))
				}
			}
		}
	}
	if n == 0 {
		r.bad("N-OWN", "sites", "", "no moving navigator calls found in run-time code")
	}
	w.checkLeafProducers(r)
}

// rootMover: the navigator method without result (MoveToRoot).
func (w *World) rootMoveMethod() string {
	for i := 0; i < w.NavIface.NumMethods(); i++ {
		m := w.NavIface.Method(i)
		if m.Type().(*types.Signature).Results().Len() == 0 {
			return m.Name()
		}
	}
	return ""
}

// checkLeafProducers: the two queries that read the context: their Select
// returns an owned copy of t.Current(); the one built for the document root
// moves that copy to the root before returning it.
func (w *World) checkLeafProducers(r *Report) {
	sel := w.selectMethod()
	rootM := w.rootMoveMethod()
	nleaf := 0
	for _, qt := range w.census.Types {
		hasQ := false
		for _, f := range qt.Fields {
			if f.IsQuery {
				hasQ = true
			}
		}
		fn := qt.Methods[sel]
		if hasQ || fn == nil {
			continue
		}
		// leaf types that return something
		usesCtx := false
		eachInstr(fn, false, func(_ *ssa.Function, in ssa.Instruction) {
			if c, ok := in.(*ssa.Call); ok && w.isContextRegister(c) {
				usesCtx = true
			}
		})
		if !usesCtx {
			continue
		}
		nleaf++
		r.FuncsAnalysed[fnName(fn)] = true
		movesRoot := false
		eachInstr(fn, false, func(_ *ssa.Function, in ssa.Instruction) {
			if c, ok := in.(ssa.CallInstruction); ok {
				if _, m, _, ok := w.isNavCall(c); ok && m == rootM {
					movesRoot = true
				}
			}
		})
		for _, b := range fn.Blocks {
			ret, ok := normalReturn(b)
			if !ok {
				continue
			}
			v := retVal(ret, 0)
			if isNilConst(strip(v)) {
				continue
			}
			key := qt.Name() + ":returns"
			if ok, why := w.owned(v); !ok {
				r.bad("N-OWN", key, w.instrPos(ret), fmt.Sprintf("%s.Select hands out a cursor that is not a private copy of the context: %s", qt.Name(), why))
				continue
			}
			// the copy is a copy of the context register
			cp, _ := resolveNav(w, v).(*ssa.Call)
			if cp == nil || !w.isContextRegister(cp.Call.Value) {
				r.bad("N-OWN", key, w.instrPos(ret), qt.Name()+".Select does not return a copy of the context node")
				continue
			}
			if movesRoot {
				// MoveToRoot on the same copy dominates the return
				okRoot := false
				eachInstr(fn, false, func(_ *ssa.Function, in ssa.Instruction) {
					if c, ok := in.(ssa.CallInstruction); ok {
						if rv, m, _, ok := w.isNavCall(c); ok && m == rootM && resolveNav(w, rv) == ssa.Value(cp) && instrDominates(in, ret) {
							okRoot = true
						}
					}
				})
				if okRoot {
					r.ok("N-OWN", key, w.instrPos(ret), "returns a copy of the context moved to the document root, whatever the start node")
				} else {
					r.bad("N-OWN", key, w.instrPos(ret), "the absolute-path producer can return a cursor that was not moved to the root")
				}
			} else {
				r.ok("N-OWN", key, w.instrPos(ret), "returns a private copy of the context node")
			}
		}
	}
	if nleaf < 2 {
		r.bad("N-OWN", "leaf-producers", "", fmt.Sprintf("found %d context-reading leaf queries, expected the context and the absolute-path producers", nleaf))
	}
}

// resolveNav: follow single-definition cells/phis to the defining call.
func resolveNav(w *World, v ssa.Value) ssa.Value {
	for i := 0; i < 8; i++ {
		v = strip(v)
		if ld, ok := v.(*ssa.UnOp); ok && ld.Op == token.MUL {
			vals, ok := w.cellReaching(ld)
			if ok && len(vals) == 1 {
				v = vals[0]
				continue
			}
		}
		return v
	}
	return v
}

// zeroReaches: can the cell still hold its initial zero value at instruction at
// (no store on some path from its allocation)?
func zeroReaches(fn *ssa.Function, a *ssa.Alloc, at ssa.Instruction) bool {
	in := map[*ssa.BasicBlock]bool{}
	out := map[*ssa.BasicBlock]bool{}
	changed := true
	for changed {
		changed = false
		for _, b := range fn.Blocks {
			cur := false
			for _, p := range b.Preds {
				if out[p] {
					cur = true
				}
			}
			in[b] = cur
			for _, ins := range b.Instrs {
				if ins == ssa.Instruction(a) {
					cur = true
				}
				if st, ok := ins.(*ssa.Store); ok && st.Addr == ssa.Value(a) {
					cur = false
				}
			}
			if cur != out[b] {
				out[b] = cur
				changed = true
			}
		}
	}
	cur := in[at.Block()]
	for _, ins := range at.Block().Instrs {
		if ins == at {
			break
		}
		if ins == ssa.Instruction(a) {
			cur = true
		}
		if st, ok := ins.(*ssa.Store); ok && st.Addr == ssa.Value(a) {
			cur = false
		}
	}
	return cur
}

// listOwned: every navigator the slice s can hold was owned when it was put
// there: s is nil, a list grown by append from such a list with owned values,
// a part of one, or a local variable every assignment to which is one.
func (o *ownCtx) listOwned(s ssa.Value, depth int) bool {
	w := o.w
	s = strip(s)
	if depth > 24 {
		return false
	}
	key := listKey{s}
	if o.visitedLists == nil {
		o.visitedLists = map[listKey]bool{}
	}
	if o.visitedLists[key] {
		return true
	}
	o.visitedLists[key] = true
	switch x := s.(type) {
	case *ssa.Const:
		return x.Value == nil
	case *ssa.MakeSlice:
		return true // zero-valued (nil) entries only until assigned; element stores are judged by N-BUFFER
	case *ssa.Slice:
		return o.listOwned(x.X, depth+1)
	case *ssa.Phi:
		for _, e := range x.Edges {
			if !o.listOwned(e, depth+1) {
				return false
			}
		}
		return true
	case *ssa.Call:
		if bi, ok := x.Call.Value.(*ssa.Builtin); ok && bi.Name() == "append" && len(x.Call.Args) == 2 {
			if !o.listOwned(x.Call.Args[0], depth+1) {
				return false
			}
			for _, v := range w.variadicElems(x.Call.Args[1]) {
				if v == nil {
					return o.listOwned(x.Call.Args[1], depth+1)
				}
				if !o.owned(v, depth+1) {
					return false
				}
			}
			return true
		}
	case *ssa.UnOp:
		if x.Op == token.MUL {
			if _, isField := x.X.(*ssa.FieldAddr); isField {
				return false
			}
			vals, ok := w.cellReaching(x)
			if !ok {
				return false
			}
			for _, v := range vals {
				if !o.listOwned(v, depth+1) {
					return false
				}
			}
			return true
		}
	}
	return false
}

type listKey struct{ v ssa.Value }
