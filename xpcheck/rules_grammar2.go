package main

// G-ABBREV (C10), G-PAIR, G-EXPECT (C17).

import (
	"fmt"
	"go/ast"
	"go/constant"
	"go/token"
	"go/types"
	"sort"
	"strings"
	"unicode"

	"golang.org/x/tools/go/ssa"
)

// allNodeConst: the NodeType value the node-test predicate treats as "any
// node": the constant the predicate closure compares the step's type test
// with (the other comparison is with n.NodeType()).
func (w *World) allNodeConst() (int64, bool) {
	for _, ntp := range w.nodeTestPredicates() {
		fn := ntp.Fn
		var k int64
		found := false
		// the predicate and the plain helpers it is spread over
		fns := []*ssa.Function{fn}
		for _, h := range w.pkgCallees(fn) {
			if h.Parent() == nil && h.Signature.Recv() == nil {
				fns = append(fns, h)
			}
		}
		for _, f := range fns {
			eachInstr(f, false, func(_ *ssa.Function, in ssa.Instruction) {
				bo, ok := in.(*ssa.BinOp)
				if !ok || bo.Op != token.EQL && bo.Op != token.NEQ {
					return
				}
				for _, side := range []ssa.Value{bo.Y, bo.X} {
					if c, ok := constInt(side); ok {
						if n, ok := side.Type().(*types.Named); ok && n.Obj().Name() == "NodeType" {
							k, found = c, true
						}
					}
				}
			})
		}
		if found {
			return k, true
		}
	}
	return 0, false
}

func (w *World) nodeTypeConst(name string) (int64, bool) {
	c, ok := w.Types.Scope().Lookup(name).(*types.Const)
	if !ok {
		return 0, false
	}
	return constant.Int64Val(c.Val())
}

func (g *Grammar) tokOfText(t string) int64 {
	if k, ok := g.TextTok[t]; ok {
		return k
	}
	return -999
}

func factsHaveTok(f []OpRecog, k int64) bool {
	for _, x := range f {
		if !x.IsName && x.Tok == k {
			return true
		}
	}
	return false
}

func factsOnlyTok(f []OpRecog, k int64) bool {
	return len(f) == 1 && !f[0].IsName && f[0].Tok == k
}

func ruleGAbbrev(w *World, r *Report) {
	r.rule("G-ABBREV", "abbreviations expand to the XPath 1.0 (axis, node test) pairs: '.' => self::node(), '..' => parent::node(), '//' => descendant-or-self::node() at every site, '@' => attribute axis with attribute principal type, no axis => child with element principal type, text()/comment()/node() => text/comment/any node tests, '*' => empty name; a parenthesised step sequence is the union ('|') of its steps over the same input")
	g, err := w.grammar()
	if err != nil {
		r.bad("ANCHOR", "G-ABBREV", "", err.Error())
		return
	}
	all, ok := w.allNodeConst()
	if !ok {
		r.bad("ANCHOR", "G-ABBREV", "", "the 'any node' type-test constant could not be derived from the node-test predicate")
		return
	}
	want := map[string]string{"//": "descendant-or-self"} // '.' and '..' are judged on token streams (checkStepAI)
	count := map[string]int{}
	for _, fn := range w.AllFuncs {
		if !w.BuildTime[fn] {
			continue
		}
		eachInstr(fn, false, func(_ *ssa.Function, in ssa.Instruction) {
			c, ok := in.(*ssa.Call)
			if !ok || c.Call.StaticCallee() != g.NewAxis {
				return
			}
			facts := g.blockFacts(c.Block(), 0)
			for text, axis := range want {
				if !factsOnlyTok(facts, g.tokOfText(text)) {
					continue
				}
				r.FuncsAnalysed[fnName(fn)] = true
				count[text]++
				key := fmt.Sprintf("%s:%s", fn.Name(), text)
				ax, _ := constString(c.Call.Args[0])
				tt, ok1 := constInt(c.Call.Args[1])
				ln, ok2 := constString(c.Call.Args[2])
				px, ok3 := constString(c.Call.Args[3])
				if ax == axis && ok1 && tt == all && ok2 && ln == "" && ok3 && px == "" {
					r.ok("G-ABBREV", key, w.instrPos(c), fmt.Sprintf("%q => %s::node()", text, axis))
				} else {
					r.bad("G-ABBREV", key, w.instrPos(c), fmt.Sprintf("%q is expanded to axis %q with type test %v / name %q, XPath 1.0 says %s::node()", text, ax, c.Call.Args[1], ln, axis))
				}
			}
		})
	}
	// `//` in each of its grammatical positions (however many places of the code serve them)
	w.dslashExpansion(r, g, all)
	w.checkStepAI(r, g, all)
	w.checkSequence(r, g)
	w.checkAbsolute(r, g)
}

// nodeTestParser: the parser method that takes (node, string, NodeType).
func (w *World) nodeTestParser(g *Grammar) *ssa.Function {
	for _, fn := range w.AllFuncs {
		if fn.Signature.Recv() == nil || typeName(fn.Signature.Recv().Type()) != g.ParserT.Obj().Name() {
			continue
		}
		ps := fn.Signature.Params()
		if ps.Len() == 3 {
			if b, ok := ps.At(1).Type().(*types.Basic); ok && b.Kind() == types.String {
				if n, ok := ps.At(2).Type().(*types.Named); ok && n.Obj().Name() == "NodeType" {
					return fn
				}
			}
		}
	}
	return nil
}

func (w *World) checkStepAxis(r *Report, g *Grammar) {
	nt := w.nodeTestParser(g)
	if nt == nil {
		r.bad("ANCHOR", "G-ABBREV:step", "", "node-test parser not found")
		return
	}
	elem, ok1 := w.nodeTypeConst("ElementNode")
	attr, ok2 := w.nodeTypeConst("AttributeNode")
	if !ok1 || !ok2 {
		r.bad("ANCHOR", "G-ABBREV:step", "", "ElementNode/AttributeNode constants not found")
		return
	}
	n := 0
	for _, fn := range w.AllFuncs {
		eachInstr(fn, false, func(_ *ssa.Function, in ssa.Instruction) {
			c, ok := in.(*ssa.Call)
			if !ok || c.Call.StaticCallee() != nt {
				return
			}
			n++
			r.FuncsAnalysed[fnName(fn)] = true
			axis, mt := c.Call.Args[2], c.Call.Args[3]
			phi, ok := axis.(*ssa.Phi)
			if !ok {
				r.undec("G-ABBREV", "step-axis", w.instrPos(c), "axis argument of the node-test parser is not a merge of the three step forms")
				return
			}
			sawAt, sawDefault, sawAxe := false, false, false
			for i, e := range phi.Edges {
				pred := phi.Block().Preds[i]
				facts := g.edgeFacts(pred, phi.Block())
				if facts == nil {
					facts = g.blockFacts(pred, 0)
				}
				switch {
				case factsOnlyTok(facts, g.tokOfText("@")):
					sawAt = true
					if s, _ := constString(e); s != "attribute" {
						r.bad("G-ABBREV", "step-axis:@", w.instrPos(c), fmt.Sprintf("'@' selects axis %v instead of attribute", e))
					} else {
						r.ok("G-ABBREV", "step-axis:@", w.instrPos(c), "'@' => attribute axis")
					}
				case g.isNameLoad(e):
					sawAxe = true
					r.ok("G-ABBREV", "step-axis:name::", w.instrPos(c), "explicit axis uses the scanned axis name")
				default:
					if s, ok := constString(e); ok {
						sawDefault = true
						if s != "child" {
							r.bad("G-ABBREV", "step-axis:default", w.instrPos(c), fmt.Sprintf("a step without axis uses axis %q instead of child", s))
						} else {
							r.ok("G-ABBREV", "step-axis:default", w.instrPos(c), "no axis => child")
						}
					} else {
						r.undec("G-ABBREV", "step-axis:other", w.instrPos(c), fmt.Sprintf("axis value %s not understood", e))
					}
				}
			}
			if !sawAt || !sawDefault || !sawAxe {
				r.bad("G-ABBREV", "step-axis:forms", w.instrPos(c), fmt.Sprintf("step forms found: '@'=%v default=%v explicit=%v", sawAt, sawDefault, sawAxe))
			}
			// principal node type
			mphi, ok := mt.(*ssa.Phi)
			if !ok {
				r.undec("G-ABBREV", "step-principal", w.instrPos(c), "principal node type is not selected by the axis")
				return
			}
			okp := len(mphi.Edges) == 2
			for i, e := range mphi.Edges {
				k, isC := constInt(e)
				if !isC {
					okp = false
					continue
				}
				pred := mphi.Block().Preds[i]
				// which edge carries axis == "attribute"?
				isAttrEdge := false
				var walk func(b *ssa.BasicBlock, to *ssa.BasicBlock, d int)
				walk = func(b, to *ssa.BasicBlock, d int) {
					if d > 3 {
						return
					}
					if ifi := blockIf(b); ifi != nil {
						if bo, ok := ifi.Cond.(*ssa.BinOp); ok && bo.Op == token.EQL && bo.X == axis {
							if s, _ := constString(bo.Y); s == "attribute" && b.Succs[0] == to {
								isAttrEdge = true
							}
						}
						return
					}
					if len(b.Preds) == 1 {
						walk(b.Preds[0], b, d+1)
					}
				}
				walk(pred, mphi.Block(), 0)
				if isAttrEdge && k != attr || !isAttrEdge && k != elem {
					okp = false
				}
			}
			if okp {
				r.ok("G-ABBREV", "step-principal", w.instrPos(c), "attribute axis => attribute nodes, every other axis => element nodes")
			} else {
				r.bad("G-ABBREV", "step-principal", w.instrPos(c), "the principal node type is not AttributeNode exactly for the attribute axis and ElementNode otherwise")
			}
		})
	}
	if n == 0 {
		r.bad("G-ABBREV", "step-axis", "", "no call of the node-test parser found")
	}
	// the node-test parser passes its axis parameter on unchanged; '*' => empty name
	eachInstr(nt, false, func(_ *ssa.Function, in ssa.Instruction) {
		c, ok := in.(*ssa.Call)
		if !ok || c.Call.StaticCallee() != g.NewAxis {
			return
		}
		r.FuncsAnalysed[fnName(nt)] = true
		if p, ok := resolve(c.Call.Args[0]).(*ssa.Parameter); ok && p == nt.Params[2] {
			r.ok("G-ABBREV", "nodetest-axis", w.instrPos(c), "axis parameter passed on unchanged")
		} else {
			r.bad("G-ABBREV", "nodetest-axis", w.instrPos(c), "the node test is attached to an axis other than the one the step named")
		}
		facts := g.blockFacts(c.Block(), 0)
		if factsOnlyTok(facts, g.tokOfText("*")) {
			ln, ok1 := constString(c.Call.Args[2])
			px, ok2 := constString(c.Call.Args[3])
			if ok1 && ok2 && ln == "" && px == "" {
				r.ok("G-ABBREV", "nodetest-star", w.instrPos(c), "'*' => empty name test")
			} else {
				r.bad("G-ABBREV", "nodetest-star", w.instrPos(c), "'*' is not compiled to the empty name test")
			}
			if p, ok := resolve(c.Call.Args[1]).(*ssa.Parameter); ok && p == nt.Params[3] {
				r.ok("G-ABBREV", "nodetest-star-type", w.instrPos(c), "'*' keeps the principal node type")
			} else {
				r.bad("G-ABBREV", "nodetest-star-type", w.instrPos(c), "'*' does not keep the principal node type of the axis")
			}
		}
	})
}

func (w *World) checkNodeTypeTests(r *Report, g *Grammar, all int64) {
	nt := w.nodeTestParser(g)
	if nt == nil {
		return
	}
	fd := w.Decls[nt.Object().(*types.Func)]
	text, ok1 := w.nodeTypeConst("TextNode")
	comm, ok2 := w.nodeTypeConst("CommentNode")
	if !ok1 || !ok2 || fd == nil {
		r.bad("ANCHOR", "G-ABBREV:nodetype", "", "TextNode/CommentNode not found")
		return
	}
	want := map[string]int64{"text": text, "comment": comm, "node": all}
	got := map[string]int64{}
	for _, si := range w.stringSwitches() {
		if si.Func != fd {
			continue
		}
		for _, c := range si.Cases {
			for _, st := range c.Clause.Body {
				as, ok := st.(*ast.AssignStmt)
				if !ok || len(as.Rhs) != 1 {
					continue
				}
				tv, ok := w.Info.Types[as.Rhs[0]]
				if !ok || tv.Value == nil {
					continue
				}
				if n, ok := tv.Type.(*types.Named); !ok || n.Obj().Name() != "NodeType" {
					continue
				}
				v, _ := constant.Int64Val(tv.Value)
				for _, l := range c.Labels {
					got[l] = v
				}
			}
		}
	}
	var keys []string
	for k := range want {
		keys = append(keys, k)
	}
	sort.Strings(keys)
	for _, k := range keys {
		v, ok := got[k]
		pos := w.pos(fd.Pos())
		if !ok {
			r.bad("G-ABBREV", "nodetype:"+k, pos, k+"() is not given a node-type test")
		} else if v != want[k] {
			r.bad("G-ABBREV", "nodetype:"+k, pos, fmt.Sprintf("%s() tests node type %d, expected %d", k, v, want[k]))
		} else {
			r.ok("G-ABBREV", "nodetype:"+k, pos, k+"() => the matching node-type test")
		}
	}
}

func (w *World) checkSequence(r *Report, g *Grammar) {
	// the level-shaped function outside the precedence chain whose operator is
	// recognised by ','
	for _, fn := range w.AllFuncs {
		if fn.Signature.Recv() == nil || typeName(fn.Signature.Recv().Type()) != g.ParserT.Obj().Name() {
			continue
		}
		lv := g.levelShape(w, fn)
		if lv == nil || lv.Kind != "binary" {
			continue
		}
		isSeq := false
		for _, o := range lv.Ops {
			if !o.IsName && o.Tok == g.tokOfText(",") {
				isSeq = true
			}
		}
		if !isSeq {
			continue
		}
		r.FuncsAnalysed[fnName(fn)] = true
		pos := w.pos(fn.Pos())
		okOp := true
		for _, o := range lv.Ops {
			if o.Op != "|" {
				okOp = false
			}
		}
		if okOp && len(lv.Problems) == 0 {
			r.ok("G-ABBREV", "sequence:union", pos, "(a, b) is compiled as a | b, left-accumulated")
		} else {
			r.bad("G-ABBREV", "sequence:union", pos, fmt.Sprintf("step sequence is not the union of its steps: ops=%v problems=%v", lv.Ops, lv.Problems))
		}
		// same input: every operand call passes the function's own node parameter
		same := true
		eachInstr(fn, false, func(_ *ssa.Function, in ssa.Instruction) {
			c, ok := in.(*ssa.Call)
			if !ok || c.Call.StaticCallee() != lv.Operand {
				return
			}
			if len(c.Call.Args) < 2 || resolve(c.Call.Args[1]) != ssa.Value(fn.Params[1]) {
				same = false
			}
		})
		if same {
			r.ok("G-ABBREV", "sequence:input", pos, "every step of the sequence gets the sequence's input")
		} else {
			r.bad("G-ABBREV", "sequence:input", pos, "a step of the sequence is parsed with a different input than the others")
		}
		return
	}
	r.bad("G-ABBREV", "sequence", "", "step-sequence parser not found")
}

func (w *World) checkAbsolute(r *Report, g *Grammar) {
	// root-node constructor: func(string) node
	var newRoot *ssa.Function
	for _, fn := range w.AllFuncs {
		if fn.Parent() != nil || fn.Signature.Recv() != nil {
			continue
		}
		sig := fn.Signature
		if sig.Params().Len() == 1 && sig.Results().Len() == 1 && types.Identical(sig.Results().At(0).Type(), g.NodeT) {
			if b, ok := sig.Params().At(0).Type().(*types.Basic); ok && b.Kind() == types.String {
				newRoot = fn
			}
		}
	}
	if newRoot == nil {
		r.bad("ANCHOR", "G-ABBREV:absolute", "", "root-node constructor not found")
		return
	}
	n := 0
	for _, fn := range w.AllFuncs {
		eachInstr(fn, false, func(_ *ssa.Function, in ssa.Instruction) {
			c, ok := in.(*ssa.Call)
			if !ok || c.Call.StaticCallee() != newRoot {
				return
			}
			r.FuncsAnalysed[fnName(fn)] = true
			facts := g.blockFacts(c.Block(), 0)
			for _, t := range []string{"/", "//"} {
				if factsOnlyTok(facts, g.tokOfText(t)) {
					n++
					// the root node must flow into the input of what follows
					used := false
					var follow func(v ssa.Value, d int)
					follow = func(v ssa.Value, d int) {
						if d > 4 {
							return
						}
						for _, u := range uses(v) {
							switch x := u.(type) {
							case *ssa.Call:
								used = true
								_ = x
							case *ssa.Phi:
								follow(x, d+1)
							case *ssa.Return:
								used = true
							}
						}
					}
					follow(c, 0)
					if used {
						r.ok("G-ABBREV", "absolute:"+t, w.instrPos(c), fmt.Sprintf("leading %q starts from the root node", t))
					} else {
						r.bad("G-ABBREV", "absolute:"+t, w.instrPos(c), fmt.Sprintf("the root node built for a leading %q is dropped", t))
					}
				}
			}
		})
	}
	if n < 2 {
		r.bad("G-ABBREV", "absolute", "", "leading '/' and '//' do not both create the root node")
	}
}

// ---------- G-PAIR ----------

// checkingConsumer: parser method taking a token constant that panics unless
// the current token equals it and then advances (skipItem).
func (w *World) checkingConsumers(g *Grammar) map[*ssa.Function]bool {
	out := map[*ssa.Function]bool{}
	for _, fn := range w.AllFuncs {
		if fn.Signature.Recv() == nil || typeName(fn.Signature.Recv().Type()) != g.ParserT.Obj().Name() {
			continue
		}
		ps := fn.Signature.Params()
		if ps.Len() != 1 || !types.Identical(ps.At(0).Type(), g.TokT) {
			continue
		}
		// calls a function that compares typ with the parameter and panics, then a consumer
		checks, consumes := false, false
		eachInstr(fn, false, func(_ *ssa.Function, in ssa.Instruction) {
			c, ok := in.(ssa.CallInstruction)
			if !ok {
				return
			}
			f := c.Common().StaticCallee()
			if f == nil {
				return
			}
			if w.isTokenChecker(g, f) {
				for _, a := range c.Common().Args {
					if a == ssa.Value(fn.Params[1]) {
						checks = true
					}
				}
			}
			if w.reachesFn(f, g.NextItem, 3) {
				consumes = true
			}
		})
		if checks && consumes {
			out[fn] = true
		}
	}
	return out
}

// isTokenChecker: func(*scanner, itemType) that panics when typ != arg.
func (w *World) isTokenChecker(g *Grammar, f *ssa.Function) bool {
	if f.Signature.Params().Len() != 2 || !types.Identical(f.Signature.Params().At(1).Type(), g.TokT) {
		return false
	}
	if hasPanic(f) == nil {
		return false
	}
	ok := false
	for _, b := range f.Blocks {
		ifi := blockIf(b)
		if ifi == nil {
			continue
		}
		bo, isB := ifi.Cond.(*ssa.BinOp)
		if !isB || bo.Op != token.NEQ && bo.Op != token.EQL {
			continue
		}
		if g.isTokLoad(bo.X) && bo.Y == ssa.Value(f.Params[1]) || g.isTokLoad(bo.Y) && bo.X == ssa.Value(f.Params[1]) {
			mis := b.Succs[0]
			if bo.Op == token.EQL {
				mis = b.Succs[1]
			}
			if _, isP := mis.Instrs[len(mis.Instrs)-1].(*ssa.Panic); isP {
				ok = true
			}
		}
	}
	return ok
}

func ruleGPair(w *World, r *Report) {
	r.rule("G-PAIR", "in every parser function, once an opening '(' or '[' has been consumed, every path to a return passes the checking consumer for the matching ')' or ']' (which panics on any other token); loops between the two pass a ',' recognition")
	g, err := w.grammar()
	if err != nil {
		r.bad("ANCHOR", "G-PAIR", "", err.Error())
		return
	}
	cc := w.checkingConsumers(g)
	if len(cc) == 0 {
		r.bad("ANCHOR", "G-PAIR", "", "checking consumer (skipItem) not found")
		return
	}
	closeOf := map[int64]int64{g.tokOfText("("): g.tokOfText(")"), g.tokOfText("["): g.tokOfText("]")}
	isCheck := func(in ssa.Instruction) (int64, bool) {
		c, ok := in.(ssa.CallInstruction)
		if !ok {
			return 0, false
		}
		f := c.Common().StaticCallee()
		if f == nil || !cc[f] {
			return 0, false
		}
		k, ok := constInt(c.Common().Args[len(c.Common().Args)-1])
		return k, ok
	}
	n := 0
	for _, fn := range w.AllFuncs {
		if fn.Signature.Recv() == nil || typeName(fn.Signature.Recv().Type()) != g.ParserT.Obj().Name() || cc[fn] {
			continue
		}
		for _, b := range fn.Blocks {
			for i, in := range b.Instrs {
				var open int64 = -1
				if k, ok := isCheck(in); ok {
					if _, isOpen := closeOf[k]; isOpen {
						open = k
					}
				} else if c, ok := in.(ssa.CallInstruction); ok {
					// bare consumer under a '(' / '[' fact
					if f := c.Common().StaticCallee(); f != nil && !cc[f] && w.reachesFn(f, g.NextItem, 2) && f.Signature.Params().Len() == 0 {
						facts := g.blockFacts(b, 0)
						for o := range closeOf {
							if factsOnlyTok(facts, o) && firstConsumerInBlock(w, g, b) == in {
								open = o
							}
						}
					}
				}
				if open < 0 {
					continue
				}
				n++
				r.FuncsAnalysed[fnName(fn)] = true
				key := fmt.Sprintf("%s:%s", fn.Name(), g.tokName(open))
				cl := closeOf[open]
				// forward search from (b,i+1)
				bad := w.pathToReturnAvoiding(b, i+1, func(x ssa.Instruction) bool {
					k, ok := isCheck(x)
					return ok && k == cl
				})
				if bad != nil {
					r.bad("G-PAIR", key, w.instrPos(in), fmt.Sprintf("after consuming %s, %s can return (at %s) without checking for the matching %s: an expression with the closing token deleted is accepted", g.tokName(open), fn.Name(), w.instrPos(bad), g.tokName(cl)))
				} else {
					r.ok("G-PAIR", key, w.instrPos(in), fmt.Sprintf("every path to a return checks %s", g.tokName(cl)))
				}
				// separator in loops between open and close
				for _, comp := range cfgSCCs(fn) {
					if !b.Dominates(comp[0]) {
						continue
					}
					hasSep := false
					for _, lb := range comp {
						for _, x := range lb.Instrs {
							if k, ok := isCheck(x); ok && k == g.tokOfText(",") {
								hasSep = true
							}
						}
						for _, s := range lb.Succs {
							if f := g.edgeFacts(lb, s); factsHaveTok(f, g.tokOfText(",")) {
								hasSep = true
							}
							if f := g.edgeFacts(lb, s); factsHaveTok(f, open) {
								hasSep = true // repeated predicates: each iteration re-opens
							}
						}
					}
					lkey := fmt.Sprintf("%s:%s:loop", fn.Name(), g.tokName(open))
					if hasSep {
						r.ok("G-PAIR", lkey, w.loopPos(comp), "each repetition is introduced by a recognised separator")
					} else {
						r.bad("G-PAIR", lkey, w.loopPos(comp), "items inside the brackets can repeat without a separator being required")
					}
				}
			}
		}
	}
	if n < 4 {
		r.bad("G-PAIR", "sites", "", fmt.Sprintf("only %d opening sites found", n))
	}
}

func firstConsumerInBlock(w *World, g *Grammar, b *ssa.BasicBlock) ssa.Instruction {
	for _, in := range b.Instrs {
		if c, ok := in.(ssa.CallInstruction); ok {
			if f := c.Common().StaticCallee(); f != nil && w.reachesFn(f, g.NextItem, 2) {
				return in
			}
		}
	}
	return nil
}

// pathToReturnAvoiding: is there a path from instruction index i of block b
// to a Return that passes no instruction satisfying stop? Returns the Return.
func (w *World) pathToReturnAvoiding(b *ssa.BasicBlock, i int, stop func(ssa.Instruction) bool) ssa.Instruction {
	type pos struct {
		b *ssa.BasicBlock
		i int
	}
	seen := map[*ssa.BasicBlock]bool{}
	var found ssa.Instruction
	var dfs func(b *ssa.BasicBlock, i int)
	dfs = func(b *ssa.BasicBlock, i int) {
		if found != nil {
			return
		}
		for _, in := range b.Instrs[i:] {
			if stop(in) {
				return
			}
			if _, ok := in.(*ssa.Return); ok {
				found = in
				return
			}
		}
		for _, s := range b.Succs {
			if !seen[s] {
				seen[s] = true
				dfs(s, 0)
			}
		}
	}
	dfs(b, i)
	return found
}

// ---------- G-EXPECT ----------

// noMatchEndsInPanic: following, from block b, only the no-match edges of
// token/character tests (and unconditional jumps), do we end in a panic?
func (g *Grammar) noMatchEndsInPanic(w *World, b *ssa.BasicBlock, isMatchTest func(*ssa.If) (matchSucc int, ok bool)) (bool, *ssa.BasicBlock) {
	seen := map[*ssa.BasicBlock]bool{}
	for !seen[b] {
		seen[b] = true
		last := b.Instrs[len(b.Instrs)-1]
		switch x := last.(type) {
		case *ssa.Panic:
			return true, b
		case *ssa.Return:
			return false, b
		case *ssa.Jump:
			b = b.Succs[0]
		case *ssa.If:
			m, ok := isMatchTest(x)
			if !ok {
				return false, b
			}
			b = b.Succs[1-m]
		default:
			return false, b
		}
	}
	return false, b
}

func ruleGExpect(w *World, r *Report) {
	r.rule("G-EXPECT", "(1) for every token form the predicate that announces a primary expression says yes to, the primary-expression parser (followed on a token stream) builds a node or panics — it never hands back a nil operand; (2) the node-test parser's no-match path panics; (3) an unterminated string and both malformed qualified-name forms panic in the scanner; (4) the function-name and axis-name dispatches of the builder have a default that returns a non-nil error; (5) an unbound namespace prefix panics")
	g, err := w.grammar()
	if err != nil {
		r.bad("ANCHOR", "G-EXPECT", "", err.Error())
		return
	}
	// (2) and (5): the step parser followed on token streams
	w.checkStepExpect(r, g)
	// (1)
	w.checkPrimaryAgreement(r, g)
	// (3) scanner
	w.checkScannerPanics(r, g)
	// (4) defaults
	w.checkDispatchDefaults(r)
}

// tokensTested: token constants fn compares the current token with (==).
func (g *Grammar) tokensTested(fn *ssa.Function) map[int64]bool {
	out := map[int64]bool{}
	eachInstr(fn, false, func(_ *ssa.Function, in ssa.Instruction) {
		bo, ok := in.(*ssa.BinOp)
		if !ok || bo.Op != token.EQL {
			return
		}
		if g.isTokLoad(bo.X) {
			if k, ok := constInt(bo.Y); ok {
				out[k] = true
			}
		}
	})
	return out
}

func (w *World) checkPrimaryAgreement(r *Report, g *Grammar) {
	// primary parser: parser method that builds constant operand nodes
	var prim *ssa.Function
	for _, fn := range w.AllFuncs {
		if fn.Signature.Recv() == nil || typeName(fn.Signature.Recv().Type()) != g.ParserT.Obj().Name() {
			continue
		}
		n := 0
		eachInstr(fn, false, func(_ *ssa.Function, in ssa.Instruction) {
			if c, ok := in.(*ssa.Call); ok && g.NewOperand != nil && c.Call.StaticCallee() == g.NewOperand {
				n++
			}
		})
		if n >= 2 {
			prim = fn
		}
	}
	// announcer: the func(*scanner) bool the path-expression parser consults to
	// choose between a primary expression and a location path
	var ann *ssa.Function
	entry, expr := w.pathEntry(g)
	if entry != nil {
		eachInstr(entry, false, func(_ *ssa.Function, in ssa.Instruction) {
			c, ok := in.(*ssa.Call)
			if !ok || c.Call.StaticCallee() == nil {
				return
			}
			fn := c.Call.StaticCallee()
			sig := fn.Signature
			if fn.Parent() != nil || sig.Recv() != nil || sig.Params().Len() != 1 || sig.Results().Len() != 1 {
				return
			}
			if p, ok := sig.Params().At(0).Type().(*types.Pointer); !ok || !types.Identical(p.Elem(), g.ScannerT) {
				return
			}
			if bt, ok := sig.Results().At(0).Type().Underlying().(*types.Basic); ok && bt.Kind() == types.Bool {
				ann = fn
			}
		})
	}
	step := w.stepParser(g)
	t := w.stepTokens(g)
	if prim == nil || ann == nil || step == nil || !t.ok {
		r.bad("ANCHOR", "G-EXPECT:primary", "", "primary-expression parser or its announcing predicate not found")
		return
	}
	r.FuncsAnalysed[fnName(prim)] = true
	r.FuncsAnalysed[fnName(ann)] = true
	// every token the announcer can say yes to is one the primary parser turns
	// into a node or rejects with a panic: it never hands back a nil operand
	sf := w.scannerFieldIdx(g)
	var toks []int64
	for k := range g.TokNames {
		toks = append(toks, k)
	}
	sort.Slice(toks, func(i, j int) bool { return toks[i] < toks[j] })
	var specs []tokSpec
	for _, k := range toks {
		if k == t.name {
			specs = append(specs, tokSpec{Tok: k, Name: "f", CanBeFunc: true}, tokSpec{Tok: k, Name: "f"}, tokSpec{Tok: k, Name: "text", CanBeFunc: true})
		} else {
			specs = append(specs, tokSpec{Tok: k, Keep: true})
		}
	}
	var escapes []string
	announced, judged := 0, 0
	undecided := ""
	for _, sp := range specs {
		st := w.initState()
		sc := st.externObj(g.ScannerT, nil)
		w.setToken(st, sc, sf, sp)
		if sp.Keep {
			sc.Fields[sf.name] = aStr("")
		}
		ai := w.newInterp(AHooks{})
		yes := false
		for _, o := range ai.Exec(ann, []AVal{{Kind: avPtr, Obj: sc, Field: -1}}, nil, st) {
			if o.Cut || o.Panicked {
				continue
			}
			if b, ok := o.Ret.Bool(); !ok || b {
				yes = true
			}
		}
		if !yes {
			continue
		}
		announced++
		// a finite continuation: an argument-less call, a parenthesised operand, the end
		stream := []tokSpec{sp}
		eofT, _ := g.eofTok()
		switch {
		case sp.Tok == t.name:
			stream = append(stream, tokSpec{Tok: t.lp, Keep: true}, tokSpec{Tok: t.rp, Keep: true})
		case sp.Tok == t.lp:
			stream = append(stream, tokSpec{Tok: t.name, Name: "x"}, tokSpec{Tok: t.rp, Keep: true})
		}
		stream = append(stream, tokSpec{Tok: eofT, Keep: true})
		for _, o := range w.runPath(g, prim, step, expr, stream) {
			if o.Cut {
				undecided = "a path of the primary-expression parser could not be followed for " + g.tokName(sp.Tok)
				continue
			}
			judged++
			if !o.Panicked && o.Ret.Kind == avNil {
				escapes = append(escapes, g.tokName(sp.Tok))
			}
		}
	}
	switch {
	case len(escapes) > 0:
		r.bad("G-EXPECT", "primary-agreement", w.pos(prim.Pos()), fmt.Sprintf("%s announces %v as the start of a primary expression, but %s neither builds a node for it nor panics: a nil operand escapes the parser", ann.Name(), dedup(escapes), prim.Name()))
	case undecided != "" || judged == 0:
		r.undec("G-EXPECT", "primary-agreement", w.pos(prim.Pos()), "the primary-expression parser could not be followed ("+undecided+")")
	default:
		r.ok("G-EXPECT", "primary-agreement", w.pos(prim.Pos()), fmt.Sprintf("%s builds a node or panics for each of the %d token forms %s announces", prim.Name(), announced, ann.Name()))
	}
	// the name case of both applies the same refinement (can be function, not a node type)
	ca, cb := calleesOf(ann), calleesOf(prim)
	shared := false
	for f := range ca {
		if cb[f] && f.Signature.Results().Len() == 1 {
			shared = true
		}
	}
	if shared {
		r.ok("G-EXPECT", "primary-name-case", w.pos(prim.Pos()), "both use the same node-type-name predicate for the name case")
	} else {
		r.bad("G-EXPECT", "primary-name-case", w.pos(prim.Pos()), "the name case of the announcer and of the primary parser do not use the same predicate")
	}
}

func calleesOf(fn *ssa.Function) map[*ssa.Function]bool {
	out := map[*ssa.Function]bool{}
	eachInstr(fn, false, func(_ *ssa.Function, in ssa.Instruction) {
		if c, ok := in.(ssa.CallInstruction); ok {
			if f := c.Common().StaticCallee(); f != nil {
				out[f] = true
			}
		}
	})
	return out
}

func (w *World) checkScannerPanics(r *Report, g *Grammar) {
	pos := w.pos(g.NextItem.Pos())
	r.FuncsAnalysed[fnName(g.NextItem)] = true
	// (a) a string literal cut off by the end of the input: propagate "the
	// current character is a quote and the input ends after k more characters"
	for _, q := range []rune{'"', '\''} {
		bad := ""
		n := 0
		for _, k := range []int{1, 2, 3} {
			for _, o := range w.scanFromEOF(g, q, k) {
				if o.Cut || strings.Count(o.Text, string(q)) != 1 {
					continue // a later character was decided to be the closing quote
				}
				n++
				if !o.Panicked {
					bad = fmt.Sprintf("with the input ending %d character(s) after the opening quote the scanner returns token %s", k-1, g.tokName(o.Tok))
				}
			}
		}
		key := "unclosed-string:" + string(q)
		switch {
		case n == 0:
			r.undec("G-EXPECT", key, pos, "the string scanner could not be followed")
		case bad != "":
			r.bad("G-EXPECT", key, pos, "the scanner does not panic when the input ends before the closing quote ("+bad+"): an expression cut inside a string is accepted")
		default:
			r.ok("G-EXPECT", key, pos, "end of input inside a string literal panics on every path")
		}
	}
	// (b) qualified names: started with a name character, no accepted token
	// ends in a lone ':' and none has white space before a single ':'
	var lone, spaced []string
	npanic := 0
	for _, o := range w.scanFrom(g, 'a') {
		if o.Cut {
			continue
		}
		t := o.Text
		if o.Panicked {
			if strings.Contains(t, ":") {
				npanic++
			}
			continue
		}
		trimmed := strings.TrimRight(t, " ")
		if strings.HasSuffix(trimmed, ":") && !strings.HasSuffix(trimmed, "::") {
			lone = append(lone, t)
		}
		for i := 0; i+1 < len(t); i++ {
			if t[i] == ' ' {
				j := i
				for j < len(t) && t[j] == ' ' {
					j++
				}
				if j < len(t) && t[j] == ':' && !(j+1 < len(t) && t[j+1] == ':') {
					spaced = append(spaced, t)
				}
			}
		}
	}
	switch {
	case len(lone) > 0:
		r.bad("G-EXPECT", "qname-lone-colon", pos, fmt.Sprintf("the scanner accepts a name followed by ':' and nothing that continues a qualified name (consumed %q): a malformed qualified name compiles", dedup(lone)))
	case len(spaced) > 0:
		r.bad("G-EXPECT", "qname-space-colon", pos, fmt.Sprintf("the scanner accepts white space between a name and a single ':' (consumed %q, ' ' = white space, '?' = any other character): `ns :a` compiles as a qualified name", dedup(spaced)))
	case npanic == 0:
		r.bad("G-EXPECT", "qname-sites", pos, "no path of the scanner panics after a ':' following a name")
	default:
		r.ok("G-EXPECT", "qname", pos, fmt.Sprintf("every accepted token that contains ':' is name:name, name:*, name:: or name ::; %d malformed continuations panic", npanic))
	}
	// (b') no token begins with ':' (a QName is NCName or NCName:NCName; "::" is
	// consumed together with the axis name before it): a leading or a second
	// colon is a malformed qualified name
	{
		n := 0
		var acc []string
		for _, o := range w.scanFrom(g, ':') {
			if o.Cut {
				continue
			}
			n++
			if !o.Panicked {
				acc = append(acc, fmt.Sprintf("%q as %s", o.Text, g.tokName(o.Tok)))
			}
		}
		switch {
		case n == 0:
			r.undec("G-EXPECT", "qname-leading-colon", pos, "the scanner could not be followed from ':'")
		case len(acc) > 0:
			r.bad("G-EXPECT", "qname-leading-colon", pos, fmt.Sprintf("the scanner accepts a token that begins with ':' (%v): `:a`, `@:id` and the tail of `ns:a:x` are taken as names", dedup(acc)))
		default:
			r.ok("G-EXPECT", "qname-leading-colon", pos, "a token cannot begin with ':'")
		}
	}
	// (c) a character that starts no token panics: no path returns normally
	// without having consumed anything
	var silent []string
	for c := rune(1); c < 128; c++ {
		if unicode.IsSpace(c) {
			continue
		}
		for _, o := range w.scanFrom(g, c) {
			if !o.Cut && !o.Panicked && o.Text == "" {
				silent = append(silent, fmt.Sprintf("%q", c))
			}
		}
	}
	if len(silent) == 0 {
		r.ok("G-EXPECT", "invalid-character", pos, "every ASCII character either starts a token or panics")
	} else {
		r.bad("G-EXPECT", "invalid-character", pos, fmt.Sprintf("for the characters %v the scanner returns without consuming anything and without panicking", dedup(silent)))
	}
}

func firstCallee(fn *ssa.Function) *ssa.Function {
	for _, in := range fn.Blocks[0].Instrs {
		if c, ok := in.(ssa.CallInstruction); ok {
			return c.Common().StaticCallee()
		}
	}
	return nil
}

// functionSwitch: the string switch with the most cases in the builder other
// than the axis switch: the function-name dispatch.
func (w *World) functionSwitch() *switchInfo {
	ax := w.axisSwitch()
	var best *switchInfo
	for _, si := range w.stringSwitches() {
		if ax != nil && si.Stmt == ax.Stmt {
			continue
		}
		if best == nil || len(si.Cases) > len(best.Cases) {
			best = si
		}
	}
	return best
}

func (w *World) checkDispatchDefaults(r *Report) {
	// a name the builder compares with nothing must end in a non-nil error (or
	// a panic inside the recover) on every path: followed by constant
	// propagation with such a name (builder_absint.go)
	judge := func(kind string, fn *ssa.Function, outs []buildOutcome) {
		key := kind + "-default"
		pos := w.pos(fn.Pos())
		if len(outs) == 0 {
			r.undec("G-EXPECT", key, pos, "the "+kind+" builder could not be followed with an unknown name")
			return
		}
		for _, o := range outs {
			if o.Accepted || o.NilNil {
				r.bad("G-EXPECT", key, pos, fmt.Sprintf("an unknown %s name does not end in an error: it compiles (to a nil or wrong query)", kind))
				return
			}
			if o.Unknown {
				r.undec("G-EXPECT", key, pos, "a path of the "+kind+" builder with an unknown name could not be followed to its result")
				return
			}
		}
		r.ok("G-EXPECT", key, pos, fmt.Sprintf("unknown %s names return a non-nil error", kind))
	}
	if ab, br, err := w.axisBuildsAI(); err != nil {
		r.bad("ANCHOR", "G-EXPECT:axis-switch", "", "axis dispatch not found: "+err.Error())
	} else {
		judge("axis", br.AxisB, append(append([]buildOutcome{}, ab[unknownAxis]...), ab[unknownAxis+"|noinput"]...))
	}
	if fb, br, err := w.functionBuilds(); err != nil {
		r.bad("ANCHOR", "G-EXPECT:function-switch", "", "function dispatch not found: "+err.Error())
	} else {
		var outs []buildOutcome
		for n := 0; n <= 4; n++ {
			outs = append(outs, fb[fnBuildKey{unknownFunctionName, n}]...)
		}
		judge("function", br.FuncB, outs)
	}
}

func (w *World) astNonNilError(e ast.Expr, scope ast.Node) bool {
	isCtor := func(x ast.Expr) bool {
		call, ok := x.(*ast.CallExpr)
		if !ok {
			return false
		}
		sel, ok := call.Fun.(*ast.SelectorExpr)
		if !ok {
			return false
		}
		f, ok := w.Info.Uses[sel.Sel].(*types.Func)
		if !ok || f.Pkg() == nil {
			return false
		}
		return f.Pkg().Path() == "errors" && f.Name() == "New" || f.Pkg().Path() == "fmt" && f.Name() == "Errorf"
	}
	if isCtor(e) {
		return true
	}
	id, ok := e.(*ast.Ident)
	if !ok {
		return false
	}
	obj := w.Info.Uses[id]
	found := false
	ast.Inspect(scope, func(x ast.Node) bool {
		as, ok := x.(*ast.AssignStmt)
		if !ok || len(as.Lhs) != 1 || len(as.Rhs) != 1 {
			return true
		}
		if l, ok := as.Lhs[0].(*ast.Ident); ok && (w.Info.Uses[l] == obj || w.Info.Defs[l] == obj) && isCtor(as.Rhs[0]) {
			found = true
		}
		return true
	})
	return found
}

func (w *World) checkPrefixLookup(r *Report, g *Grammar) {
	// closure(s) nested in the node-test parser that look up a map and panic
	nt := w.nodeTestParser(g)
	if nt == nil {
		return
	}
	n := 0
	for _, cl := range closuresOf(nt) {
		eachInstr(cl, false, func(_ *ssa.Function, in ssa.Instruction) {
			lk, ok := in.(*ssa.Lookup)
			if !ok || !lk.CommaOk {
				return
			}
			if _, isMap := lk.X.Type().Underlying().(*types.Map); !isMap {
				return
			}
			n++
			r.FuncsAnalysed[fnName(cl)] = true
			// the not-found edge must end in a panic
			okp := false
			for _, u := range uses(lk) {
				ex, ok := u.(*ssa.Extract)
				if !ok || ex.Index != 1 {
					continue
				}
				for _, uu := range uses(ex) {
					if ifi, ok := uu.(*ssa.If); ok {
						fe := ifi.Block().Succs[1]
						if _, isP := fe.Instrs[len(fe.Instrs)-1].(*ssa.Panic); isP {
							okp = true
						}
					}
				}
			}
			if okp {
				r.ok("G-EXPECT", "unbound-prefix", w.instrPos(lk), "a prefix missing from the namespace map panics (=> Compile error)")
			} else {
				r.bad("G-EXPECT", "unbound-prefix", w.instrPos(lk), "a prefix that is not bound in the namespace map is silently accepted")
			}
			// the lookup key is the step's prefix, and the guard is prefix != "" && map != nil
			guards := 0
			for _, b := range cl.Blocks {
				if ifi := blockIf(b); ifi != nil {
					if bo, ok := ifi.Cond.(*ssa.BinOp); ok && bo.Op == token.NEQ {
						if s, ok := constString(bo.Y); ok && s == "" && b.Succs[0].Dominates(lk.Block()) || b.Succs[0] == lk.Block() {
							guards++
						} else if isNilConst(bo.Y) && (b.Succs[0].Dominates(lk.Block()) || b.Succs[0] == lk.Block()) {
							guards++
						}
					}
				}
			}
			if guards >= 2 {
				r.ok("G-EXPECT", "prefix-lookup-guard", w.instrPos(lk), "lookup performed when the prefix is non-empty and a namespace map was given")
			} else {
				r.bad("G-EXPECT", "prefix-lookup-guard", w.instrPos(lk), "the namespace lookup is not guarded by exactly `prefix != \"\" && namespaces != nil`")
			}
		})
	}
	if n == 0 {
		r.bad("G-EXPECT", "unbound-prefix", w.pos(nt.Pos()), "no namespace-map lookup found in the node-test parser")
	}
}

var _ = strings.Join

// ---- the step parser on token streams (grammar_absint.go) ----

type stepToks struct {
	name, axe, dot, dotdot, at, star, lp, rp int64
	ok                                       bool
}

func (w *World) stepTokens(g *Grammar) stepToks {
	t := stepToks{name: -1, axe: -1, dot: g.tokOfText("."), dotdot: g.tokOfText(".."), at: g.tokOfText("@"), star: g.tokOfText("*"), lp: g.tokOfText("("), rp: g.tokOfText(")")}
	for _, o := range w.scanFrom(g, 'a') {
		if o.Cut || o.Panicked || o.Tok < 0 {
			continue
		}
		txt := strings.TrimRight(o.Text, " ")
		switch {
		case strings.HasSuffix(txt, "::"):
			t.axe = o.Tok
		case !strings.Contains(txt, ":"):
			t.name = o.Tok
		}
	}
	t.ok = t.name >= 0 && t.axe >= 0 && t.dot >= 0 && t.dotdot >= 0 && t.at >= 0 && t.star >= 0 && t.lp >= 0 && t.rp >= 0
	return t
}

// stepExpect: every completed path of the step parser on this stream built
// its axis node with the expected axis / type test / names.
func (w *World) stepExpect(r *Report, g *Grammar, fn *ssa.Function, key, what string, stream []tokSpec, axis string, typ int64, local, prefix *string) {
	pos := w.pos(fn.Pos())
	if eof, ok := g.eofTok(); ok {
		stream = append(append([]tokSpec{}, stream...), tokSpec{Tok: eof, Keep: true})
	}
	outs := w.runStep(g, fn, stream, nil, false)
	n := 0
	for _, o := range outs {
		if o.Cut || o.Panicked || len(o.Axis) < 4 {
			continue
		}
		n++
		ax, ok0 := o.Axis[0].Str()
		tt, ok1 := o.Axis[1].Int()
		ln, ok2 := o.Axis[2].Str()
		px, ok3 := o.Axis[3].Str()
		bad := ""
		switch {
		case !ok0 || ax != axis:
			bad = fmt.Sprintf("axis %s", o.Axis[0].String())
		case !ok1 || tt != typ:
			bad = fmt.Sprintf("type test %s", o.Axis[1].String())
		case local != nil && (!ok2 || ln != *local):
			bad = fmt.Sprintf("local name %s", o.Axis[2].String())
		case prefix != nil && (!ok3 || px != *prefix):
			bad = fmt.Sprintf("prefix %s", o.Axis[3].String())
		}
		if bad != "" {
			r.bad("G-ABBREV", key, pos, fmt.Sprintf("%s is expanded with %s (axis %s, type test %s, name %s, prefix %s); XPath 1.0: %s", what, bad, o.Axis[0].String(), o.Axis[1].String(), o.Axis[2].String(), o.Axis[3].String(), describeStepWant(axis, typ, local)))
			return
		}
	}
	if n == 0 {
		r.bad("G-ABBREV", key, pos, fmt.Sprintf("%s: the step parser builds no axis node (it panics or was not followed)", what))
		return
	}
	r.ok("G-ABBREV", key, pos, fmt.Sprintf("%s => %s", what, describeStepWant(axis, typ, local)))
}

func describeStepWant(axis string, typ int64, local *string) string {
	s := fmt.Sprintf("axis %q with type test %d", axis, typ)
	if local != nil {
		s += fmt.Sprintf(" and local name %q", *local)
	}
	return s
}

func (w *World) checkStepAI(r *Report, g *Grammar, all int64) {
	fn := w.stepParser(g)
	t := w.stepTokens(g)
	elem, ok1 := w.nodeTypeConst("ElementNode")
	attr, ok2 := w.nodeTypeConst("AttributeNode")
	text, ok3 := w.nodeTypeConst("TextNode")
	comm, ok4 := w.nodeTypeConst("CommentNode")
	if fn == nil || !t.ok || !ok1 || !ok2 || !ok3 || !ok4 {
		r.bad("ANCHOR", "G-ABBREV:step", "", "step parser, its tokens or the node-type constants not found")
		return
	}
	r.FuncsAnalysed[fnName(fn)] = true
	empty, x := "", "x"
	nm := func(n string) tokSpec { return tokSpec{Tok: t.name, Name: n} }
	w.stepExpect(r, g, fn, fn.Name()+":.", `"."`, []tokSpec{{Tok: t.dot}}, "self", all, &empty, &empty)
	w.stepExpect(r, g, fn, fn.Name()+":..", `".."`, []tokSpec{{Tok: t.dotdot}}, "parent", all, &empty, &empty)
	w.stepExpect(r, g, fn, "step-axis:@", "'@name'", []tokSpec{{Tok: t.at}, nm("x")}, "attribute", attr, &x, &empty)
	w.stepExpect(r, g, fn, "step-axis:default", "a step without axis", []tokSpec{nm("x")}, "child", elem, &x, &empty)
	w.stepExpect(r, g, fn, "step-axis:name::", "'ancestor::name'", []tokSpec{{Tok: t.axe, Name: "ancestor"}, nm("x")}, "ancestor", elem, &x, &empty)
	w.stepExpect(r, g, fn, "step-principal", "'attribute::name'", []tokSpec{{Tok: t.axe, Name: "attribute"}, nm("x")}, "attribute", attr, &x, &empty)
	w.stepExpect(r, g, fn, "nodetest-axis", "'following-sibling::name'", []tokSpec{{Tok: t.axe, Name: "following-sibling"}, nm("x")}, "following-sibling", elem, &x, &empty)
	w.stepExpect(r, g, fn, "nodetest-star", "'*'", []tokSpec{{Tok: t.star}}, "child", elem, &empty, &empty)
	w.stepExpect(r, g, fn, "nodetest-star-type", "'@*'", []tokSpec{{Tok: t.at}, {Tok: t.star}}, "attribute", attr, &empty, &empty)
	for _, c := range []struct {
		n string
		k int64
	}{{"text", text}, {"comment", comm}, {"node", all}} {
		w.stepExpect(r, g, fn, "nodetype:"+c.n, c.n+"()", []tokSpec{{Tok: t.name, Name: c.n, CanBeFunc: true}, {Tok: t.lp}, {Tok: t.rp}}, "child", c.k, &empty, &empty)
	}
	// an NCName is a NodeType only when '(' follows: an element that happens to be
	// called text, comment, node or processing-instruction is an ordinary name test
	for _, n := range []string{"text", "comment", "node", "processing-instruction"} {
		local := n
		w.stepExpect(r, g, fn, "name-spelled-like-nodetype:"+n, "a name test spelled '"+n+"' (no '(' follows)", []tokSpec{nm(n)}, "child", elem, &local, &empty)
	}
}

func (w *World) checkStepExpect(r *Report, g *Grammar) {
	fn := w.stepParser(g)
	t := w.stepTokens(g)
	if fn == nil || !t.ok {
		r.bad("ANCHOR", "G-EXPECT:nodetest", "", "step parser or its tokens not found")
		return
	}
	r.FuncsAnalysed[fnName(fn)] = true
	pos := w.pos(fn.Pos())
	// (2) a token that starts no step: every path panics
	starts := map[int64]bool{t.name: true, t.axe: true, t.dot: true, t.dotdot: true, t.at: true, t.star: true, t.lp: true}
	var accepted []string
	n := 0
	var toks []int64
	for k := range g.TokNames {
		toks = append(toks, k)
	}
	sort.Slice(toks, func(i, j int) bool { return toks[i] < toks[j] })
	for _, k := range toks {
		if starts[k] {
			continue
		}
		for _, o := range w.runStep(g, fn, []tokSpec{{Tok: k}}, nil, false) {
			if o.Cut {
				continue
			}
			n++
			if !o.Panicked {
				accepted = append(accepted, g.tokName(k))
			}
		}
	}
	switch {
	case n == 0:
		r.undec("G-EXPECT", "nodetest-default", pos, "the step parser could not be followed")
	case len(accepted) > 0:
		r.bad("G-EXPECT", "nodetest-default", pos, fmt.Sprintf("a token that starts no node test does not end in a panic (%v): an expression cut after an operator, '/', '[', '(' or ',' is accepted", dedup(accepted)))
	default:
		r.ok("G-EXPECT", "nodetest-default", pos, "a token that starts no node test ends in a panic (=> Compile error)")
	}
	// (5) prefixes against a namespace table
	tab := map[string]string{"p": "urn:p", "e": ""}
	judge := func(stream []tokSpec, ns map[string]string, has bool) (panics, completes, bound int) {
		if eof, ok := g.eofTok(); ok {
			stream = append(append([]tokSpec{}, stream...), tokSpec{Tok: eof, Keep: true})
		}
		for _, o := range w.runStep(g, fn, stream, ns, has) {
			switch {
			case o.Cut:
			case o.Panicked:
				panics++
			default:
				completes++
				if o.NSBound {
					bound++
				}
			}
		}
		return
	}
	pb, cb, bb := judge([]tokSpec{{Tok: t.name, Name: "x", Prefix: "p"}}, tab, true)
	pu, cu, _ := judge([]tokSpec{{Tok: t.name, Name: "x", Prefix: "q"}}, tab, true)
	pe0, ce0, be0 := judge([]tokSpec{{Tok: t.name, Name: "x", Prefix: "e"}}, tab, true)
	switch {
	case pe0 > 0 || be0 != ce0 || ce0 == 0:
		r.bad("G-EXPECT", "unbound-prefix", pos, "a prefix bound to the empty namespace URI is treated as unbound (or its binding is not recorded): whether a prefix is bound must be decided by the presence of the key, not by the value")
	case pb+cb == 0 || pu+cu == 0:
		r.undec("G-EXPECT", "unbound-prefix", pos, "prefixed name tests could not be followed")
	case cu > 0:
		r.bad("G-EXPECT", "unbound-prefix", pos, "a prefix that is not bound in the namespace map is silently accepted")
	case pb > 0 || bb != cb:
		r.bad("G-EXPECT", "unbound-prefix", pos, "a prefix bound in the namespace map does not get its URI attached (or panics)")
	default:
		r.ok("G-EXPECT", "unbound-prefix", pos, "a prefix missing from the namespace map panics (=> Compile error); a bound one gets its URI")
	}
	// the same when the token after the name test is itself a name (an operator
	// name such as `and`): the prefix looked up is the one of the name test, not
	// whatever the scanner holds after it has moved on
	andTok := tokSpec{Tok: t.name, Name: "and", Prefix: ""}
	pb2, cb2, bb2 := judge([]tokSpec{{Tok: t.name, Name: "x", Prefix: "p"}, andTok}, tab, true)
	pu2, cu2, _ := judge([]tokSpec{{Tok: t.name, Name: "x", Prefix: "q"}, andTok}, tab, true)
	switch {
	case pb2+cb2 == 0 || pu2+cu2 == 0:
		r.undec("G-EXPECT", "prefix-of-this-token", pos, "prefixed name tests followed by a name token could not be followed")
	case cu2 > 0:
		r.bad("G-EXPECT", "prefix-of-this-token", pos, "an unbound prefix is accepted when the name test is followed by a name token (`q:x and ...`): the prefix is looked up after the scanner has moved on to the next token")
	case pb2 > 0 || bb2 != cb2:
		r.bad("G-EXPECT", "prefix-of-this-token", pos, "a bound prefix does not get its URI when the name test is followed by a name token (`p:x and ...`): the prefix is read after the scanner has moved on to the next token")
	default:
		r.ok("G-EXPECT", "prefix-of-this-token", pos, "the prefix resolved is the one of the name test itself, whatever token follows")
	}
	pn, cn, bn := judge([]tokSpec{{Tok: t.name, Name: "x", Prefix: "q"}}, nil, false)
	pe, ce, be := judge([]tokSpec{{Tok: t.name, Name: "x", Prefix: ""}}, tab, true)
	if pn == 0 && cn > 0 && bn == 0 && pe == 0 && ce > 0 && be == 0 {
		r.ok("G-EXPECT", "prefix-lookup-guard", pos, "lookup performed when the prefix is non-empty and a namespace map was given")
	} else {
		r.bad("G-EXPECT", "prefix-lookup-guard", pos, fmt.Sprintf("the namespace lookup is not guarded by exactly `prefix != \"\" && namespaces != nil` (no table: %d panics, %d bound; empty prefix: %d panics, %d bound)", pn, bn, pe, be))
	}
}
