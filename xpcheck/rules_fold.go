package main

// A-FOLD — what the builder makes of `//T`.
//
// The builder is followed by constant propagation on the two-step AST
// child::T over descendant-or-self::node(), the axis nodes being built by
// following the parser's own axis-node constructor on (i) the constant
// arguments the parser passes at its `//` sites and (ii) the arguments the
// step parser computes for the written-out `descendant-or-self::node()`.
//
//   agreement (C10, C01): for every node test T and with/without a preceding
//     path, the query built from (i) equals the query built from (ii): the
//     abbreviation means its expansion, also in the order of the result.
//   order (C12, C01): `//T` is one document-order walk (the type built for the
//     descendant axis, without the or-self flag, node test = that of T) for
//     every kind of node test; a child step over a separate
//     descendant-or-self walk yields its nodes grouped by parent.
//   context (C13, C01): the walk starts from the query built for the preceding
//     path, or, when there is none, from the same context leaf a plain
//     relative step starts from.

import (
	"fmt"
	"go/types"
	"sort"
	"strings"

	"golang.org/x/tools/go/ssa"
)

type foldResult struct {
	Desc     string // rendering of the built query
	TypeName string
	InTag    string // tag of the input query value ("q:grand"), or ""
	InType   string // type of a freshly built input query
	Bools    map[string]bool
	PredOK   bool
	OK       bool // followed to the end, accepted
	Mixed    bool // different kinds of query on different paths
	Why      string
}

// dosSiteArgs: the constant arguments of the parser's axis-node constructor
// calls whose axis is descendant-or-self (the `//` abbreviation sites).
func (w *World) dosSiteArgs(g *Grammar) ([][]AVal, []ssa.Instruction) {
	var out [][]AVal
	var sites []ssa.Instruction
	for _, fn := range w.AllFuncs {
		if !g.isParserMethod(fn) {
			// or a plain constructor helper the parser calls (newDescendantOrSelfNode(input))
			helper := false
			if fn.Signature.Recv() == nil && fn.Parent() == nil && fn != g.NewAxis {
				if n := w.CG.Nodes[fn]; n != nil {
					for _, e := range n.In {
						if g.isParserMethod(rootFn(e.Caller.Func)) {
							helper = true
						}
					}
				}
			}
			if !helper {
				continue
			}
		}
		eachInstr(fn, false, func(_ *ssa.Function, in ssa.Instruction) {
			c, ok := in.(*ssa.Call)
			if !ok || c.Call.StaticCallee() != g.NewAxis || len(c.Call.Args) < 2 {
				return
			}
			k, ok := c.Call.Args[0].(*ssa.Const)
			if !ok || k.Value == nil || k.Value.ExactString() != `"descendant-or-self"` {
				return
			}
			ni := axisCtorNodeIdx(g)
			if ni < 2 || ni > len(c.Call.Args) {
				return
			}
			var args []AVal
			for _, a := range c.Call.Args[:ni] {
				kc, ok := a.(*ssa.Const)
				if !ok || kc.Value == nil {
					return
				}
				args = append(args, AVal{Kind: avConst, C: kc.Value, Dyn: kc.Type()})
			}
			out = append(out, args)
			sites = append(sites, in)
		})
	}
	return out, sites
}

// axisCtorNodeIdx: index of the axis-node constructor's parameter that takes
// the input node; the parameters before it describe the step.
func axisCtorNodeIdx(g *Grammar) int {
	ps := g.NewAxis.Signature.Params()
	for i := 0; i < ps.Len(); i++ {
		if types.Identical(ps.At(i).Type(), g.NodeT) {
			return i
		}
	}
	return -1
}

// axisCtorArgs completes the leading arguments with the input node and zero
// values for whatever parameters follow it (options).
func axisCtorArgs(g *Grammar, lead []AVal, input AVal) []AVal {
	args := append(append([]AVal{}, lead...), input)
	for i := len(args); i < g.NewAxis.Signature.Params().Len(); i++ {
		args = append(args, AVal{Kind: avNil})
	}
	return args
}

func (w *World) foldBuild(g *Grammar, br *builderRoles, dosArgs []AVal, grand bool, rootType int64, childArgsFrom []AVal) foldResult {
	st := w.initState()
	var grandV AVal = AVal{Kind: avNil}
	if grand {
		o := st.newObj(nil, nil)
		o.Extern = true
		grandV = AVal{Kind: avPtr, Obj: o, Field: -1, Tag: "grand"}
	}
	mk := func(st *AState, args []AVal) (AVal, *AState, bool) {
		ai := w.newInterp(AHooks{})
		outs := ai.Exec(g.NewAxis, args, nil, st)
		if len(outs) != 1 || outs[0].Cut || outs[0].Panicked || outs[0].Ret.Kind != avPtr {
			return AVal{}, nil, false
		}
		v := outs[0].Ret
		v.Dyn = types.NewPointer(br.AxisNode)
		return v, outs[0].St, true
	}
	inV, st1, ok := mk(st, axisCtorArgs(g, dosArgs, grandV))
	if !ok {
		return foldResult{Why: "the axis-node constructor could not be followed"}
	}
	// child::T with the name left open
	cargs := []AVal{aStr("child"), aInt(rootType)}
	cargs[1].Dyn = childArgsFrom[1].Dyn
	for i := 2; i < len(dosArgs); i++ {
		if i == 2 {
			cargs = append(cargs, AVal{Kind: avUnknown, Tag: "T-name"})
		} else {
			cargs = append(cargs, aStr(""))
		}
	}
	rootV, st2, ok := mk(st1, axisCtorArgs(g, cargs, inV))
	if !ok {
		return foldResult{Why: "the axis-node constructor could not be followed"}
	}
	root := st2.obj(rootV.Obj)
	ai := w.newInterp(w.builderHooks(br))
	var acc []buildOutcome
	for _, o := range ai.Exec(br.AxisB, w.builderArgs(st2, br, br.AxisB, root), nil, st2) {
		bo := classify(o)
		bo.Root = root
		if bo.Unknown {
			return foldResult{Why: "a path of the axis builder could not be followed to its end"}
		}
		if bo.Accepted {
			acc = append(acc, bo)
		} else {
			return foldResult{Why: "the axis builder rejects the step"}
		}
	}
	if len(acc) == 0 {
		return foldResult{Why: "the axis builder was not followed"}
	}
	// several accepted paths (e.g. a flat and a cached variant of the same step):
	// all of them are judged; the rendering lists the distinct ones
	var res foldResult
	seen := map[string]bool{}
	var descs []string
	for i, o := range acc {
		fr := w.describeFold(o)
		if !seen[fr.Desc] {
			seen[fr.Desc] = true
			descs = append(descs, fr.Desc)
		}
		if i == 0 {
			res = fr
			continue
		}
		// keep the first outcome that is not a single walk, if any, as the representative
		if fr.TypeName != res.TypeName || fr.InTag != res.InTag || fr.InType != res.InType {
			res.Mixed = true
		}
	}
	sort.Strings(descs)
	res.Desc = strings.Join(descs, " or ")
	res.OK = true
	return res
}

func (w *World) describeFold(o buildOutcome) foldResult {
	fr := foldResult{Bools: map[string]bool{}}
	if o.Result.Kind != avPtr {
		fr.Desc = o.Result.String()
		if o.Result.Tag != "" {
			fr.Desc = o.Result.Tag
		}
		return fr
	}
	var render func(v AVal, depth int) string
	render = func(v AVal, depth int) string {
		if v.Kind != avPtr || depth > 3 {
			switch {
			case v.Tag != "":
				return v.Tag
			case v.isConst():
				return v.C.ExactString()
			case v.Kind == avNil:
				return "nil"
			}
			return "?"
		}
		obj := o.St.obj(v.Obj)
		nm, _ := obj.Type.(*types.Named)
		stt, ok := obj.Type.Underlying().(*types.Struct)
		if nm == nil || !ok {
			return "&?"
		}
		var parts []string
		for i := 0; i < stt.NumFields(); i++ {
			fv, have := obj.Fields[i]
			f := stt.Field(i)
			switch {
			case w.isQueryType(f.Type()) && have:
				parts = append(parts, f.Name()+"="+render(fv, depth+1))
			case w.isPredicateFuncType(f.Type()) && have:
				s := "?"
				if fc, ok := fv.Any.(*factoryCall); ok && len(fc.Args) > 0 && fc.Args[0].Kind == avPtr {
					if o.Root != nil && fc.Args[0].Obj.ID == o.Root.ID {
						s = "test-of-this-step"
					} else {
						s = "test-of-another-node"
					}
				}
				parts = append(parts, f.Name()+"="+s)
			case have && fv.isConst():
				parts = append(parts, f.Name()+"="+fv.C.ExactString())
			}
		}
		sort.Strings(parts)
		return nm.Obj().Name() + "{" + strings.Join(parts, ",") + "}"
	}
	fr.Desc = render(o.Result, 0)
	obj := o.St.obj(o.Result.Obj)
	fr.TypeName = typeName(obj.Type)
	if stt, ok := obj.Type.Underlying().(*types.Struct); ok {
		for i := 0; i < stt.NumFields(); i++ {
			fv, have := obj.Fields[i]
			f := stt.Field(i)
			if w.isQueryType(f.Type()) && have {
				if fv.Kind == avPtr {
					fr.InType = typeName(o.St.obj(fv.Obj).Type)
				} else {
					fr.InTag = fv.Tag
				}
			}
			if w.isPredicateFuncType(f.Type()) && have {
				if fc, ok := fv.Any.(*factoryCall); ok && len(fc.Args) > 0 && fc.Args[0].Kind == avPtr && o.Root != nil && fc.Args[0].Obj.ID == o.Root.ID {
					fr.PredOK = true
				}
			}
			if bt, ok := f.Type().Underlying().(*types.Basic); ok && bt.Kind() == types.Bool {
				b, _ := fv.Bool()
				fr.Bools[f.Name()] = have && b
			}
		}
	}
	return fr
}

func ruleAFold(w *World, r *Report) {
	r.rule("A-FOLD", "constant propagation through the axis builder on child::T over descendant-or-self::node(), the axis nodes built by following the parser's own constructor on the arguments of its `//` sites and on those the step parser computes for the written-out form: (agreement) both forms build the same query for every kind of node test; (order) `//T` is a single walk of the type built for the descendant axis, not or-self, with T's node test; (context) the walk starts from the query of the preceding path or, without one, from the context leaf a plain relative step starts from")
	g, err := w.grammar()
	if err != nil {
		r.bad("ANCHOR", "A-FOLD", "", err.Error())
		return
	}
	br, err := w.roles()
	if err != nil || br.AxisB == nil || g.NewAxis == nil {
		r.bad("ANCHOR", "A-FOLD", "", "axis builder or axis-node constructor not found")
		return
	}
	step := w.stepParser(g)
	t := w.stepTokens(g)
	all, okA := w.allNodeConst()
	elem, ok1 := w.nodeTypeConst("ElementNode")
	text, ok2 := w.nodeTypeConst("TextNode")
	comm, ok3 := w.nodeTypeConst("CommentNode")
	if step == nil || !t.ok || !okA || !ok1 || !ok2 || !ok3 {
		r.bad("ANCHOR", "A-FOLD", "", "step parser or node-type constants not found")
		return
	}
	r.FuncsAnalysed[fnName(br.AxisB)] = true
	pos := w.pos(br.AxisB.Pos())
	// (i) the `//` sites
	siteArgs, sites := w.dosSiteArgs(g)
	if len(siteArgs) == 0 {
		r.bad("ANCHOR", "A-FOLD", "", "no `//` site (axis-node constructor call with the constant axis descendant-or-self) found in the parser")
		return
	}
	abbrev := siteArgs[0]
	for i, a := range siteArgs[1:] {
		for j := range a {
			if a[j].C.ExactString() != abbrev[j].C.ExactString() {
				r.bad("A-FOLD", "sites-agree", w.instrPos(sites[i+1]), "the `//` sites of the parser build different descendant-or-self nodes")
				return
			}
		}
	}
	// (ii) the written-out form, through the step parser
	eof, _ := g.eofTok()
	var expanded []AVal
	for _, o := range w.runStep(g, step, []tokSpec{{Tok: t.axe, Name: "descendant-or-self"}, {Tok: t.name, Name: "node", CanBeFunc: true}, {Tok: t.lp}, {Tok: t.rp}, {Tok: eof, Keep: true}}, nil, false) {
		if o.Cut || o.Panicked || len(o.Axis) < len(abbrev) {
			continue
		}
		args := o.Axis[:len(abbrev)]
		okc := true
		for _, a := range args {
			if !a.isConst() {
				okc = false
			}
		}
		if okc {
			expanded = args
		}
	}
	if expanded == nil {
		r.undec("A-FOLD", "expansion", pos, "the axis node the step parser builds for descendant-or-self::node() could not be determined")
		return
	}
	// the context leaf of a plain relative step
	leafType := ""
	{
		st := w.initState()
		ai0 := w.newInterp(AHooks{})
		args := []AVal{aStr("child"), aInt(elem)}
		args[1].Dyn = abbrev[1].Dyn
		for i := 2; i < len(abbrev); i++ {
			args = append(args, aStr(""))
		}
		args = axisCtorArgs(g, args, AVal{Kind: avNil})
		if outs := ai0.Exec(g.NewAxis, args, nil, st); len(outs) == 1 && outs[0].Ret.Kind == avPtr {
			root := outs[0].St.obj(outs[0].Ret.Obj)
			ai := w.newInterp(w.builderHooks(br))
			for _, o := range ai.Exec(br.AxisB, w.builderArgs(outs[0].St, br, br.AxisB, root), nil, outs[0].St) {
				bo := classify(o)
				bo.Root = root
				if bo.Accepted {
					leafType = w.describeFold(bo).InType
				}
			}
		}
	}
	// the type built for a plain descendant step
	descTypes := map[string]bool{}
	descType := ""
	if tab, _, err := w.axisTable(); err == nil {
		for _, e := range tab {
			if e.Label == "descendant" && e.HasIn && e.Input == "input" {
				descTypes[e.Type.Name()] = true
				descType = e.Type.Name()
			}
		}
	}
	want := func(p ...string) bool {
		for _, x := range p {
			if w.curProp == x {
				return true
			}
		}
		return false
	}
	kinds := []struct {
		n string
		k int64
	}{{"a name test", elem}, {"text()", text}, {"comment()", comm}, {"node()", all}}
	for _, kd := range kinds {
		for _, grand := range []bool{true, false} {
			ctx := "after a path"
			if !grand {
				ctx = "at the start of a relative path"
			}
			key := fmt.Sprintf("%s,%s", kd.n, ctx)
			a := w.foldBuild(g, br, abbrev, grand, kd.k, abbrev)
			x := w.foldBuild(g, br, expanded, grand, kd.k, abbrev)
			if !a.OK || !x.OK {
				why := a.Why
				if a.OK {
					why = x.Why
				}
				r.undec("A-FOLD", "build:"+key, pos, fmt.Sprintf("`//T` with T = %s, %s: %s", kd.n, ctx, why))
				continue
			}
			if want("C10", "C01") {
				if a.Desc == x.Desc {
					r.ok("A-FOLD", "agreement:"+key, pos, "`//T` and `/descendant-or-self::node()/child::T` build "+a.Desc)
				} else {
					r.bad("A-FOLD", "agreement:"+key, pos, fmt.Sprintf("T = %s, %s: the abbreviation `//T` builds %s but its expansion descendant-or-self::node()/child::T builds %s: the two are evaluated by different algorithms (a child step over a separate descendant-or-self walk yields its nodes grouped by parent, the single walk in document order)", kd.n, ctx, a.Desc, x.Desc))
				}
			}
			if want("C12", "C01") {
				switch {
				case descType == "":
					r.undec("A-FOLD", "order:"+key, pos, "the query type of a plain descendant step could not be determined")
				case !descTypes[a.TypeName] || a.Mixed:
					r.bad("A-FOLD", "order:"+key, pos, fmt.Sprintf("T = %s, %s: `//T` is built as %s, not as one %s walk: a child step over a separate descendant-or-self walk reports the children of a shallow node before deeper nodes that precede them in the document", kd.n, ctx, a.Desc, descType))
				case !a.PredOK:
					r.bad("A-FOLD", "order:"+key, pos, fmt.Sprintf("T = %s: the single walk built for `//T` does not carry T's node test (%s)", kd.n, a.Desc))
				case anyTrue(a.Bools):
					r.bad("A-FOLD", "order:"+key, pos, fmt.Sprintf("T = %s: the single walk built for `//T` has a flag set (%s): `//T` selects children of descendants-or-self, never the start node itself", kd.n, a.Desc))
				default:
					r.ok("A-FOLD", "order:"+key, pos, "`//T` is one "+descType+" walk with T's node test")
				}
			}
			if want("C13", "C01") {
				switch {
				case !descTypes[a.TypeName]:
					// the unfolded form: its wiring is judged by A-DISPATCH
					r.ok("A-FOLD", "context:"+key, pos, "not folded; the two steps are wired by the general dispatch (A-DISPATCH)")
				case grand && a.InTag != "q:grand":
					r.bad("A-FOLD", "context:"+key, pos, fmt.Sprintf("`P//T`: the walk does not start from the query built for P (%s)", a.Desc))
				case !grand && (leafType == "" || a.InType != leafType):
					r.bad("A-FOLD", "context:"+key, pos, fmt.Sprintf("a relative path starting with descendant-or-self::node()/T starts from a fresh %s, a plain relative step from a fresh %s: the path no longer composes with the context node", a.InType, leafType))
				default:
					r.ok("A-FOLD", "context:"+key, pos, "starts from the preceding path, or from the context leaf "+leafType)
				}
			}
		}
	}
}

func anyTrue(m map[string]bool) bool {
	for _, v := range m {
		if v {
			return true
		}
	}
	return false
}
