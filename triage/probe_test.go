package xpath

// Triage probes (not a check): run in a scratch copy of the repository to
// confirm that a construct named by a static rule is a behavioural defect.
//   cp -r /repo /tmp/probe && cp /verif/triage/probe_test.go /tmp/probe/ && (cd /tmp/probe && go test -run Probe -v .)

import (
	"fmt"
	"strings"
	"sync"
	"testing"
)

func mk(t *testing.T, xml string) *TNode {
	// tiny builder: "<r><a><b/></a></r>" only elements, attributes k='v', text
	doc := createNode("", RootNode)
	cur := doc
	i := 0
	for i < len(xml) {
		if xml[i] == '<' {
			j := strings.IndexByte(xml[i:], '>') + i
			tag := xml[i+1 : j]
			if strings.HasPrefix(tag, "/") {
				cur = cur.Parent
			} else {
				self := strings.HasSuffix(tag, "/")
				tag = strings.TrimSuffix(tag, "/")
				parts := strings.Fields(tag)
				n := cur.createChildNode(parts[0], ElementNode)
				for _, a := range parts[1:] {
					kv := strings.SplitN(a, "=", 2)
					n.addAttribute(kv[0], strings.Trim(kv[1], "'"))
				}
				if !self {
					cur = n
				}
			}
			i = j + 1
		} else {
			j := strings.IndexByte(xml[i:], '<')
			if j < 0 {
				j = len(xml) - i
			}
			cur.createChildNode(xml[i:i+j], TextNode)
			i += j
		}
	}
	return doc
}

func sel(doc *TNode, e *Expr) string {
	var out []string
	it := e.Select(createNavigator(doc))
	for it.MoveNext() {
		n := it.Current().(*TNodeNavigator).curr
		out = append(out, fmt.Sprintf("%s#%p", n.Data, n)[:len(n.Data)+1]+pathOf(n))
	}
	return strings.Join(out, " ")
}

func pathOf(n *TNode) string {
	s := ""
	for n != nil && n.Parent != nil {
		i := 1
		for p := n.PrevSibling; p != nil; p = p.PrevSibling {
			i++
		}
		s = fmt.Sprintf("/%d", i) + s
		n = n.Parent
	}
	return s
}

func try(f func() interface{}) (res interface{}) {
	defer func() {
		if e := recover(); e != nil {
			res = fmt.Sprintf("PANIC(%T): %v", e, e)
		}
	}()
	return f()
}

func evalAt(doc *TNode, nav NodeNavigator, expr string) interface{} {
	return try(func() interface{} {
		e, err := Compile(expr)
		if err != nil {
			return "COMPILE-ERR: " + err.Error()
		}
		v := e.Evaluate(nav)
		if it, ok := v.(*NodeIterator); ok {
			n := 0
			for it.MoveNext() {
				n++
			}
			return fmt.Sprintf("nodeset(%d)", n)
		}
		return v
	})
}

func TestProbe(t *testing.T) {
	// F1
	doc := mk(t, "<r><a><b/></a></r>")
	e := MustCompile("ancestor::a = ''")
	nav := createNavigator(doc)
	nav.MoveToChild()
	nav.MoveToChild()
	nav.MoveToChild() // b
	t.Logf("F1 nav at %s", nav.LocalName())
	for i := 0; i < 3; i++ {
		t.Logf("F1 Evaluate #%d: %v", i, e.Evaluate(nav.Copy()))
	}
	// F3
	doc = mk(t, "<r><a><b/><b/></a><b/></r>")
	t.Logf("F3 //b[ancestor::a] = %s (want 2 b)", sel(doc, MustCompile("//b[ancestor::a]")))
	// F4
	doc = mk(t, "<r><b/><c/><c/><b/></r>")
	t.Logf("F4 //b[following::c] = %s (want only first b)", sel(doc, MustCompile("//b[following::c]")))
	doc = mk(t, "<r><b/><c/><c/><b/></r>")
	t.Logf("F4 //b[preceding::c] = %s (want only last b)", sel(doc, MustCompile("//b[preceding::c]")))
	// F5
	doc = mk(t, "<r><x><a><a><k/></a></a></x><x><a><k/></a></x></r>")
	t.Logf("F5 //x[.//a//k] = %s (want both x)", sel(doc, MustCompile("//x[.//a//k]")))
	t.Logf("F5b //x[descendant::a/descendant::k='']= %s", sel(doc, MustCompile("//x[descendant::a/descendant::k = '']")))
	// F6 depth
	deep := "a/" + strings.Repeat("(", 100000) + "b" + strings.Repeat(")", 100000)
	_, err := Compile(deep)
	t.Logf("F6 deep(1e5): err=%v", err != nil)
	// F7..F13
	doc = mk(t, "<r><a><b>x</b></a><a><b>2</b></a></r>")
	root := createNavigator(doc)
	for _, ex := range []string{"//b > 1", "1 < //b", "'x' > 1", "1 > 'x'", "true() = 1", "1 = true()", "'a' = true()", "//b = true()", "1 mod 0", "5 mod 2", "5.5 mod 2", "-5 mod 2",
		"substring('12345',3,10)", "substring('12345',0,3)", "substring('12345',-1,3)", "substring('12345',1.5,2.6)", "substring('12345',2)", "substring('12345',5,1)", "substring('12345',6,1)", "substring('12345', 1, 5)", "substring('12345', 2, 5)",
		"$x/a", "namespace::a/b", "string()", "number()", "boolean()", "round(2.5) = 3", "round(2.5)", "round(2.5) + 1", "string(round(2.4))",
		"string(0.00001)", "count(//a[b]) + count(//a)", "a * 2", "a*2", "descendant-or-self::zz/b",
		"string-join(//b, ',')",
	} {
		t.Logf("EVAL %-40s => %v", ex, evalAt(doc, root.Copy(), ex))
	}
	// F14
	doc = mk(t, "<r><a><b/></a><zz><b/></zz></r>")
	t.Logf("F14 descendant-or-self::zz/b = %s (want only b under zz)", sel(doc, MustCompile("descendant-or-self::zz/b")))
	// F15
	doc = mk(t, "<r><a-1><a/></a-1></r>")
	rn := createNavigator(doc)
	rn.MoveToChild()
	t.Logf("F15 count(a-1 | a-1/a) = %v (want 2)", evalAt(doc, rn.Copy(), "count(a-1 | a-1/a)"))
	// F2 race (run with -race)
	doc = mk(t, "<r><a>1</a><a>2</a></r>")
	e = MustCompile("string-join(//a, ',')")
	var wg sync.WaitGroup
	for g := 0; g < 4; g++ {
		wg.Add(1)
		go func() {
			defer wg.Done()
			for i := 0; i < 200; i++ {
				it := e.Select(createNavigator(doc))
				_ = it
				v := try(func() interface{} { return MustCompile("string-join(//a, ',')").Evaluate(createNavigator(doc)) })
				_ = v
			}
		}()
	}
	wg.Wait()
	// group posit
	doc = mk(t, "<r><x><a/><a/></x><x><a/><a/></x></r>")
	t.Logf("GRP //x[(a)[2]] = %s (want both x)", sel(doc, MustCompile("//x[(a)[2]]")))
}
