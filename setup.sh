#!/bin/bash
# Builds the static checker from files on disk only (offline).
set -eu
cd "$(dirname "$0")"
export GOFLAGS=-mod=mod GOPROXY=off GOSUMDB=off GOTOOLCHAIN=local
unset GOWORK
mkdir -p bin evidence
(cd xpcheck && go build -o ../bin/xpcheck .)
echo "built bin/xpcheck"
