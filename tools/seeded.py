#!/usr/bin/env python3
"""Evaluate a seeded change written by an independent sub-agent.
usage: tools/seeded.py <patch.diff> <demo_test.go> [--props C01,C02,...]
 1. confirms on scratch copies of /repo (under $TMPDIR, removed afterwards) that the change builds, passes the unit
    tests, that the demonstration FAILS with the change and PASSES without it;
 2. runs the static checks of all properties on the changed copy and reports which rules fire.
Prints a JSON summary."""
import json, os, re, shutil, subprocess, sys, tempfile

ENV = dict(os.environ, GOFLAGS="-mod=mod", GOPROXY="off", GOSUMDB="off", GOTOOLCHAIN="local")
ENV.pop("GOWORK", None)
VERIF = os.path.dirname(os.path.dirname(os.path.abspath(__file__)))
REPO = "/repo"
ALL = ["C%02d" % i for i in range(1, 18)]

def sh(cmd, cwd, timeout=300):
    try:
        p = subprocess.run(cmd, cwd=cwd, env=ENV, capture_output=True, text=True, errors='replace', timeout=timeout)
        return p.returncode, p.stdout + p.stderr
    except subprocess.TimeoutExpired:
        return 124, "timeout"

def main():
    patch, demo = sys.argv[1], sys.argv[2]
    props = ALL
    race = "--race" in sys.argv
    for a in sys.argv[3:]:
        if a.startswith("--props="):
            props = a.split("=", 1)[1].split(",")
    d = tempfile.mkdtemp(prefix="xpseed_")
    res = {}
    try:
        clean = os.path.join(d, "clean"); mut = os.path.join(d, "mut")
        shutil.copytree(REPO, clean, ignore=shutil.ignore_patterns(".git"))
        shutil.copytree(REPO, mut, ignore=shutil.ignore_patterns(".git"))
        rc, out = sh(["git", "init", "-q"], mut); sh(["git", "add", "-A"], mut)
        rc, out = sh(["git", "apply", "--whitespace=nowarn", os.path.abspath(patch)], mut)
        if rc != 0:
            rc, out = sh(["patch", "-p1", "-i", os.path.abspath(patch)], mut)
        res["applies"] = rc == 0
        if rc != 0:
            res["apply_error"] = out[-400:]
            print(json.dumps(res, indent=1)); return
        shutil.rmtree(os.path.join(mut, ".git"), ignore_errors=True)
        rc, out = sh(["go", "build", "./..."], mut); res["builds"] = rc == 0
        rc, out = sh(["go", "vet", "."], mut); res["vet"] = rc == 0
        rc, out = sh(["go", "test", "-count=1", "-timeout", "120s", "."], mut); res["unit_tests_pass_with_change"] = rc == 0
        if rc != 0: res["unit_tail"] = out[-300:]
        tests = re.findall(r"func (Test\w+)\(", open(demo).read())
        res["demo_tests"] = tests
        runarg = "^(" + "|".join(tests) + ")$"
        for name, repo in (("with_change", mut), ("without_change", clean)):
            shutil.copy(demo, os.path.join(repo, "zz_demo_test.go"))
            cmd = ["go", "test", "-count=1", "-timeout", "180s", "-run", runarg, "."]
            if race: cmd.insert(2, "-race")
            rc, out = sh(cmd, repo, timeout=400)
            res["demo_" + name] = "PASS" if rc == 0 else "FAIL"
            if name == "with_change": res["demo_with_change_tail"] = out[-500:]
            os.remove(os.path.join(repo, "zz_demo_test.go"))
        v = os.path.join(d, "verif"); os.makedirs(v)
        shutil.copytree(os.path.join(VERIF, "rules"), os.path.join(v, "rules"))
        shutil.copy(os.path.join(VERIF, "known_findings.json"), v)
        caught = {}
        for p in props:
            c = subprocess.run([os.path.join(VERIF, "bin", "xpcheck"), "-prop", p, "-repo", mut, "-verif", v], env=ENV, capture_output=True, text=True)
            if c.returncode != 0:
                hits = []
                for line in c.stdout.splitlines():
                    line = line.strip()
                    if line.startswith("VIOLATED") or line.startswith("UNDECIDED"):
                        hits.append(line[:260])
                caught[p] = hits or [c.stdout[-300:]]
        res["caught_by"] = caught
        res["confirmed"] = bool(res["builds"] and res["unit_tests_pass_with_change"] and res["demo_with_change"] == "FAIL" and res["demo_without_change"] == "PASS")
        print(json.dumps(res, indent=1))
    finally:
        shutil.rmtree(d, ignore_errors=True)
main()
