#!/usr/bin/env python3
"""Add floors for (property, rule) pairs that have none yet.
Runs every property check on /repo, reads the per-rule obligation counts from the checker's summary and records
floor = ceil(count/2) if count <= 4 (0 for a rule that legitimately has no instance for the property), else 60% of it. Existing floors are never changed (they were confirmed when they were added).
usage: tools/floors.py [--show]"""
import json, os, re, subprocess, sys
VERIF = os.path.dirname(os.path.dirname(os.path.abspath(__file__)))
path = os.path.join(VERIF, "rules", "floors.json")
fl = json.load(open(path))
added = {}
for i in range(1, 18):
    p = "C%02d" % i
    out = subprocess.run([os.path.join(VERIF, "bin", "xpcheck"), "-prop", p], capture_output=True, text=True).stdout
    for m in re.finditer(r"^\s+rule (\S+)\s+map\[(.*)\]", out, re.M):
        rule, body = m.group(1), m.group(2)
        if rule in ("FLOOR", "ANCHOR"):
            continue
        n = sum(int(x.split(":")[1]) for x in body.split())
        k = p + ":" + rule
        if k not in fl:
            added[k] = (0 if n == 0 else max(1, (n + 1) // 2)) if n <= 4 else int(n * 0.6)
if "--show" in sys.argv:
    print(json.dumps(added, indent=1)); sys.exit(0)
fl.update(added)
json.dump(dict(sorted(fl.items())), open(path, "w"), indent=1)
print("added", len(added), "floors:", added)
