#!/usr/bin/env python3
"""Take in the changes a seeding sub-agent left in <round_dir>/<prop>/out/ (changeN.diff, changeN_demo_test.go.txt,
changeN.md): confirm each with tools/seeded.py (builds, vet, unit tests pass, demonstration fails with / passes without
the change), run all 17 static checks on it, and store the confirmed ones as /verif/seeded/<prop>-<k>/.
usage: tools/intake.py <round_dir> <round_no> <prop> [<prop>...]
Prints one line per change: id, confirmed?, caught by own property's check?, rules."""
import glob, json, os, re, shutil, subprocess, sys
VERIF = os.path.dirname(os.path.dirname(os.path.abspath(__file__)))

def main():
    only = [int(a.split("=")[1]) for a in sys.argv if a.startswith("--only=")]
    args = [a for a in sys.argv[1:] if not a.startswith("--")]
    rd, rnd, props = args[0], int(args[1]), args[2:]
    for p in props:
        out = os.path.join(rd, p, "out")
        nums = sorted(int(re.search(r"change(\d+)\.diff$", f).group(1)) for f in glob.glob(os.path.join(out, "change*.diff")))
        have = [int(os.path.basename(d).split("-")[1]) for d in glob.glob(os.path.join(VERIF, "seeded", p + "-*"))]
        k = max(have + [0])
        for n in nums:
            if only and n not in only:
                continue
            patch = os.path.join(out, "change%d.diff" % n); demo = os.path.join(out, "change%d_demo_test.go.txt" % n)
            notes = os.path.join(out, "change%d.md" % n)
            if not os.path.exists(demo):
                print(p, n, "no demonstration"); continue
            race = "-race" in (open(notes).read() if os.path.exists(notes) else "")
            cmd = [os.path.join(VERIF, "tools", "seeded.py"), patch, demo] + (["--race"] if race else [])
            r = subprocess.run(cmd, capture_output=True, text=True)
            try:
                res = json.loads(r.stdout)
            except Exception:
                print(p, n, "evaluation failed:", r.stdout[-300:], r.stderr[-300:]); continue
            if not res.get("confirmed") and race:
                pass
            if not res.get("confirmed"):
                print("%s change%d NOT CONFIRMED %s" % (p, n, {x: res.get(x) for x in ("applies", "builds", "vet", "unit_tests_pass_with_change", "demo_with_change", "demo_without_change")}))
                continue
            k += 1
            sid = "%s-%d" % (p, k); d = os.path.join(VERIF, "seeded", sid); os.makedirs(d)
            shutil.copy(patch, os.path.join(d, "patch.diff")); shutil.copy(demo, os.path.join(d, "demo_test.go.txt"))
            if os.path.exists(notes): shutil.copy(notes, os.path.join(d, "author_notes.md"))
            summary = ""
            if os.path.exists(notes):
                for line in open(notes):
                    if line.strip():
                        summary = line.strip(); break
            caught = res.get("caught_by", {})
            own = caught.get(p, [])
            meta = dict(id=sid, breaks_property=p, round=rnd,
                        author="independent sub-agent given only the property text (plus one-line summaries of earlier authors' changes to avoid) and a scratch worktree (round %d)" % rnd,
                        summary=summary, needs_to_manifest="see author_notes.md",
                        confirmed_by_me=dict(applies=res["applies"], builds=res["builds"], go_vet=res["vet"],
                                             unit_tests_pass_with_change=res["unit_tests_pass_with_change"], demo_tests=res["demo_tests"],
                                             demo_with_change=res["demo_with_change"], demo_without_change=res["demo_without_change"], race=race,
                                             how="tools/seeded.py patch.diff demo_test.go.txt (two scratch copies of /repo under $TMPDIR, removed afterwards; build, vet, unit tests, demonstration on both copies; then bin/xpcheck -prop <all 17> -repo <changed copy>)"),
                        caught_by_checks=sorted(caught), first_report_of_own_check=(own[0] if own else None),
                        caught_before_strengthening=(own[0].split()[1].split("/")[0] if own else None), strengthening=None)
            json.dump(meta, open(os.path.join(d, "meta.json"), "w"), indent=1)
            print("%s (change%d) confirmed own=%s others=%s :: %s" % (sid, n, "YES " + own[0].split()[1] if own else "NO", ",".join(x for x in sorted(caught) if x != p) or "-", summary[:110]))
main()
