#!/usr/bin/env python3
"""Self-test corpus driver.
  tools/mutants.py validate [id...]  - for each mutant: apply to a scratch copy of /repo, require that it builds
                                       and passes the unit tests (a mutant the tests catch is useless), then run
                                       the static check of its property on the scratch copy and require exit 1.
  tools/mutants.py static [id...]    - static part only (what `thorough` does).
Mutants live in /verif/mutants/*.json: {id, property, file, old, new, why, kind: mutant|refactor}.
A 'refactor' entry is behaviour-preserving: the check must stay silent on it.
"""
import json, os, shutil, subprocess, sys, tempfile, glob, concurrent.futures as cf

ENV = dict(os.environ, GOFLAGS="-mod=mod", GOPROXY="off", GOSUMDB="off", GOTOOLCHAIN="local")
ENV.pop("GOWORK", None)
VERIF = os.path.dirname(os.path.dirname(os.path.abspath(__file__)))
REPO = os.environ.get("VERIF_REPO", "/repo")

def load(ids):
    ms = []
    for f in sorted(glob.glob(os.path.join(VERIF, "mutants", "*.json"))):
        for m in json.load(open(f)):
            props = m["property"] if isinstance(m["property"], list) else [m["property"]]
            if not ids or m["id"] in ids or any(p in ids for p in props):
                ms.append(m)
    # changes written by independent sub-agents (see /verif/seeded/*/meta.json)
    for f in sorted(glob.glob(os.path.join(VERIF, "seeded", "*", "meta.json"))):
        meta = json.load(open(f))
        m = dict(id="seeded-" + meta["id"], property=[meta["breaks_property"]], patch=os.path.join(os.path.dirname(f), "patch.diff"), notest=True)
        if not ids or m["id"] in ids or meta["breaks_property"] in ids:
            ms.append(m)
    # behaviour-preserving refactorings written by independent sub-agents (see /verif/refactors/*/notes.md):
    # every property's check must stay silent on each of them
    allp = ["C%02d" % i for i in range(1, 18)]
    for f in sorted(glob.glob(os.path.join(VERIF, "refactors", "*", "patch.diff"))):
        rid = "refactor-" + os.path.basename(os.path.dirname(f))
        wanted = [p for p in allp if p in ids]
        if not ids or rid in ids or wanted:
            ms.append(dict(id=rid, property=wanted or allp, patch=f, notest=True, kind="refactor"))
    return ms

def run_one(m, mode):
    d = tempfile.mkdtemp(prefix="xpmut_")
    try:
        repo = os.path.join(d, "repo")
        shutil.copytree(REPO, repo, ignore=shutil.ignore_patterns(".git"))
        if m.get("patch"):
            pr = subprocess.run(["patch", "-p1", "-s", "-i", m["patch"]], cwd=repo, capture_output=True, text=True)
            if pr.returncode != 0:
                return dict(id=m["id"], status="not-applicable", detail="patch does not apply: " + pr.stdout[-200:])
            for junk in glob.glob(os.path.join(repo, "*.orig")):
                os.remove(junk)
            edits = []
        else:
            edits = m.get("edits") or [dict(file=m["file"], old=m["old"], new=m["new"])]
        for e in edits:
            p = os.path.join(repo, e["file"])
            s = open(p).read()
            if s.count(e["old"]) != 1:
                return dict(id=m["id"], status="not-applicable", detail="old text occurs %d times" % s.count(e["old"]))
            open(p, "w").write(s.replace(e["old"], e["new"]))
        res = dict(id=m["id"], property=m["property"], kind=m.get("kind", "mutant"))
        if mode == "validate":
            b = subprocess.run(["go", "build", "./..."], cwd=repo, env=ENV, capture_output=True, text=True)
            if b.returncode != 0:
                res.update(status="does-not-build", detail=b.stderr[-400:]); return res
            if m.get("notest"):
                res["tests_pass"] = None
            else:
                try:
                    t = subprocess.run(["go", "test", "-count=1", "-timeout", "60s", "./..."], cwd=repo, env=ENV, capture_output=True, text=True, timeout=120)
                    res["tests_pass"] = t.returncode == 0
                    if t.returncode != 0:
                        res["test_tail"] = t.stdout[-300:]
                except subprocess.TimeoutExpired:
                    res["tests_pass"] = False
        v = os.path.join(d, "verif"); os.makedirs(v)
        shutil.copytree(os.path.join(VERIF, "rules"), os.path.join(v, "rules"))
        shutil.copy(os.path.join(VERIF, "known_findings.json"), v)
        props = m["property"] if isinstance(m["property"], list) else [m["property"]]
        outs = []
        flagged = False
        rules_hit = set()
        for p in props:
            c = subprocess.run([os.environ.get("XPBIN", os.path.join(VERIF, "bin", "xpcheck")), "-prop", p, "-repo", repo, "-verif", v],
                               env=ENV, capture_output=True, text=True)
            outs.append(c.stdout[-1500:])
            if c.returncode == 1 and "VIOLATION property=" in c.stdout:
                flagged = True
                for line in c.stdout.splitlines():
                    line = line.strip()
                    if line.startswith("VIOLATED") or line.startswith("UNDECIDED"):
                        rules_hit.add(line.split()[1].split("/")[0])
            elif c.returncode == 3:
                continue  # property not registered (yet)
            elif c.returncode not in (0, 1):
                res.update(status="checker-error", detail=c.stdout[-500:] + c.stderr[-500:]); return res
        res["flagged"] = flagged
        res["rules_hit"] = sorted(rules_hit)
        want = m.get("kind", "mutant") == "mutant"
        res["status"] = "ok" if flagged == want else ("MISSED" if want else "FALSE-ALARM")
        if res["status"] == "FALSE-ALARM" and m.get("patch") and os.path.exists(os.path.join(os.path.dirname(m["patch"]), "KNOWN_FALSE_ALARM.md")):
            res["status"] = "known-false-alarm"  # a stated limitation of the machinery (DESIGN.md section 13), still reported
        if res["status"] != "ok":
            res["detail"] = "\n".join(outs)[-1200:]
        if want and m.get("expect_rule") and m["expect_rule"] not in rules_hit and flagged:
            res["status"] = "ok-other-rule"
        return res
    finally:
        shutil.rmtree(d, ignore_errors=True)

def main():
    mode = sys.argv[1] if len(sys.argv) > 1 else "static"
    as_json = False
    if mode == "json":
        mode, as_json = "static", True
    ms = load(set(sys.argv[2:]))
    if as_json:
        # restrict every mutant to the requested properties
        want = set(sys.argv[2:])
        for m in ms:
            props = m["property"] if isinstance(m["property"], list) else [m["property"]]
            m["property"] = [p for p in props if p in want] or props
    with cf.ThreadPoolExecutor(max_workers=8) as ex:
        results = list(ex.map(lambda m: run_one(m, mode), ms))
    if as_json:
        print(json.dumps(results))
        return
    bad = 0
    for r in results:
        extra = ""
        if "tests_pass" in r and r["tests_pass"] is False:
            extra = " [unit tests FAIL with this mutant]"
        print("%-34s %-14s %s%s" % (r["id"], r["status"], ",".join(r.get("rules_hit", [])), extra))
        if r["status"] not in ("ok", "ok-other-rule", "not-applicable", "known-false-alarm"):
            bad += 1
            print("    " + (r.get("detail") or "").replace("\n", "\n    ")[-1500:])
    print("mutants: %d, problems: %d" % (len(results), bad))
    json.dump(results, open(os.path.join(VERIF, "mutants", "last_run.out"), "w"), indent=1)
    sys.exit(1 if bad else 0)

main()
