#!/usr/bin/env python3
"""Evaluate a behaviour-preserving refactoring written by an independent sub-agent.
usage: tools/refactor.py <patch.diff> [--props=C01,...]
Applies the patch to a scratch copy of /repo (under $TMPDIR, removed afterwards), requires build + vet + unit tests,
then runs the static checks: every property whose check reports a violation is a FALSE ALARM of the machinery
(the refactoring does not change behaviour), to be fixed in the rule. Prints a JSON summary."""
import json, os, shutil, subprocess, sys, tempfile
ENV = dict(os.environ, GOFLAGS="-mod=mod", GOPROXY="off", GOSUMDB="off", GOTOOLCHAIN="local"); ENV.pop("GOWORK", None)
VERIF = os.path.dirname(os.path.dirname(os.path.abspath(__file__)))
ALL = ["C%02d" % i for i in range(1, 18)]
def sh(cmd, cwd, timeout=300):
    p = subprocess.run(cmd, cwd=cwd, env=ENV, capture_output=True, text=True, timeout=timeout)
    return p.returncode, p.stdout + p.stderr
def main():
    patch = sys.argv[1]; props = ALL
    for a in sys.argv[2:]:
        if a.startswith("--props="): props = a.split("=", 1)[1].split(",")
    d = tempfile.mkdtemp(prefix="xpref_"); res = {"patch": patch}
    try:
        mut = os.path.join(d, "mut")
        shutil.copytree("/repo", mut, ignore=shutil.ignore_patterns(".git"))
        sh(["git", "init", "-q"], mut)
        rc, out = sh(["git", "apply", "--whitespace=nowarn", os.path.abspath(patch)], mut)
        if rc != 0: rc, out = sh(["patch", "-p1", "-i", os.path.abspath(patch)], mut)
        res["applies"] = rc == 0
        if rc != 0:
            res["apply_error"] = out[-300:]; print(json.dumps(res, indent=1)); return
        shutil.rmtree(os.path.join(mut, ".git"), ignore_errors=True)
        rc, out = sh(["go", "build", "./..."], mut); res["builds"] = rc == 0
        rc, out = sh(["go", "vet", "."], mut); res["vet"] = rc == 0
        rc, out = sh(["go", "test", "-count=1", "-timeout", "120s", "."], mut); res["unit_tests_pass"] = rc == 0
        v = os.path.join(d, "verif"); os.makedirs(v)
        shutil.copytree(os.path.join(VERIF, "rules"), os.path.join(v, "rules")); shutil.copy(os.path.join(VERIF, "known_findings.json"), v)
        alarms = {}
        for p in props:
            c = subprocess.run([os.path.join(VERIF, "bin", "xpcheck"), "-prop", p, "-repo", mut, "-verif", v], env=ENV, capture_output=True, text=True)
            if c.returncode != 0:
                alarms[p] = [l.strip()[:300] for l in c.stdout.splitlines() if l.strip().startswith(("VIOLATED", "UNDECIDED"))] or [c.stdout[-300:]]
        res["alarms"] = alarms
        print(json.dumps(res, indent=1))
    finally:
        shutil.rmtree(d, ignore_errors=True)
main()
